package harness

import (
	transfertypes "github.com/cosmos/ibc-go/v10/modules/apps/transfer/types"
	"strconv"
	"fmt"
	"time"

	sdkmath "cosmossdk.io/math"

	codectypes "github.com/cosmos/cosmos-sdk/codec/types"
	sdk "github.com/cosmos/cosmos-sdk/types"
	banktypes "github.com/cosmos/cosmos-sdk/x/bank/types"
	slashingtypes "github.com/cosmos/cosmos-sdk/x/slashing/types"
	stakingtypes "github.com/cosmos/cosmos-sdk/x/staking/types"

	clienttypes "github.com/cosmos/ibc-go/v10/modules/core/02-client/types"
	connectiontypes "github.com/cosmos/ibc-go/v10/modules/core/03-connection/types"
	channeltypes "github.com/cosmos/ibc-go/v10/modules/core/04-channel/types"
	commitmenttypes "github.com/cosmos/ibc-go/v10/modules/core/23-commitment/types"
	host "github.com/cosmos/ibc-go/v10/modules/core/24-host"
	ibctesting "github.com/cosmos/ibc-go/v10/testing"

	abcitypes "github.com/cometbft/cometbft/abci/types"

	consumertypes "github.com/cosmos/interchain-security/v7/x/ccv/consumer/types"
	providertypes "github.com/cosmos/interchain-security/v7/x/ccv/provider/types"
	ccvtypes "github.com/cosmos/interchain-security/v7/x/ccv/types"
)

// Step is one element of a schedule: a block on some chain with abstract transactions, or a harness-level operation.
type Step struct {
	Op     string           `json:"op"`               // "block", "start", "handshake", "fail"
	Chain  string           `json:"chain,omitempty"`  // "p" or "c<id>"
	Dt     int64            `json:"dt,omitempty"`     // seconds
	Absent []string         `json:"absent,omitempty"` // key names that did not sign the previous block
	Txs    []map[string]any `json:"txs,omitempty"`    // abstract actions
	C      string           `json:"c,omitempty"`      // consumer name for start/handshake
	Point  string           `json:"point,omitempty"`  // failpoint for op=fail
	Skip   int              `json:"skip,omitempty"`
}

func geti(m map[string]any, k string) int64 {
	switch v := m[k].(type) {
	case float64:
		return int64(v)
	case int:
		return int64(v)
	case int64:
		return v
	}
	return 0
}
func gets(m map[string]any, k string) string {
	if v, ok := m[k].(string); ok {
		return v
	}
	return ""
}
func getb(m map[string]any, k string) bool {
	if v, ok := m[k].(bool); ok {
		return v
	}
	return false
}
func getl(m map[string]any, k string) []string {
	var out []string
	switch v := m[k].(type) {
	case []any:
		for _, x := range v {
			if s, ok := x.(string); ok {
				out = append(out, s)
			}
		}
	case []string:
		out = v
	}
	return out
}
func has(m map[string]any, k string) bool { _, ok := m[k]; return ok }

func (w *World) opOf(v string) *Account {
	// v1 -> op1 ; vx1 -> op(NumVals+1)
	var i int
	if _, err := fmt.Sscanf(v, "v%d", &i); err == nil {
		return w.N.Accts[fmt.Sprintf("op%d", i)]
	}
	return nil
}

func (w *World) valAddrOf(v string) sdk.ValAddress {
	a := w.opOf(v)
	if a == nil {
		return sdk.ValAddress([]byte("unknownvalidator....")[:20])
	}
	return a.ValAddr()
}

func (w *World) consAddrsOf(vs []string) []string {
	var out []string
	for _, v := range vs {
		kn, ok := w.ValKey[v]
		if !ok {
			continue
		}
		out = append(out, w.N.Keys[kn].Addr().String())
	}
	return out
}

func (w *World) acct(name string) *Account {
	if a, ok := w.N.Accts[name]; ok {
		return a
	}
	if name == "gov" {
		return &Account{Name: "gov"}
	}
	panic("unknown account " + name)
}

func (w *World) addrOf(name string) string {
	if name == "gov" {
		return w.N.Gov
	}
	if name == "" {
		return ""
	}
	return w.acct(name).Addr().String()
}

func (w *World) timeAt(secs int64) time.Time {
	if secs == 0 {
		return time.Time{}
	}
	return w.Genesis.Add(time.Duration(secs) * time.Second)
}

func (w *World) slashJailOf(m map[string]any) *providertypes.SlashJailParameters {
	return &providertypes.SlashJailParameters{
		SlashFraction: sdkmath.LegacyMustNewDecFromStr(gets(m, "frac")),
		JailDuration:  time.Duration(geti(m, "jail")) * time.Second,
		Tombstone:     getb(m, "tomb"),
	}
}

func (w *World) shapingOf(m map[string]any) *providertypes.PowerShapingParameters {
	return &providertypes.PowerShapingParameters{
		Top_N: uint32(geti(m, "topN")), ValidatorsPowerCap: uint32(geti(m, "powCap")),
		ValidatorSetCap: uint32(geti(m, "valCap")), MinStake: uint64(geti(m, "minStake")),
		AllowInactiveVals: getb(m, "allowInactive"),
		Allowlist:         w.consAddrsOf(getl(m, "allowL")), Denylist: w.consAddrsOf(getl(m, "denyL")),
		Prioritylist: w.consAddrsOf(getl(m, "prioL")),
	}
}

func (w *World) initParamsOf(m map[string]any) *providertypes.ConsumerInitializationParameters {
	ip := providertypes.DefaultConsumerInitializationParameters()
	ip.InitialHeight = clienttypes.Height{RevisionNumber: uint64(geti(m, "initRev")), RevisionHeight: 1}
	if has(m, "initH") {
		ip.InitialHeight.RevisionHeight = uint64(geti(m, "initH"))
	}
	ip.SpawnTime = w.timeAt(geti(m, "spawn"))
	ip.UnbondingPeriod = time.Duration(w.Cfg.ConsUnbonding) * time.Second
	ip.CcvTimeoutPeriod = time.Duration(w.Cfg.CCVTimeout) * time.Second
	ip.TransferTimeoutPeriod = time.Hour
	ip.BlocksPerDistributionTransmission = 3
	if has(m, "bpdt") {
		ip.BlocksPerDistributionTransmission = geti(m, "bpdt")
	}
	ip.ConsumerRedistributionFraction = "0.75"
	if has(m, "frac") {
		ip.ConsumerRedistributionFraction = gets(m, "frac")
	}
	ip.HistoricalEntries = 10000
	ip.ConnectionId = gets(m, "conn")
	return &ip
}

// buildTx turns an abstract action into a transaction for chain c.
func (w *World) buildTx(c *Chain, a map[string]any) (*TxSpec, error) {
	kind := gets(a, "a")
	tx := &TxSpec{Kind: kind, Args: map[string]any{}}
	for k, v := range a {
		if k != "a" {
			tx.Args[k] = v
		}
	}
	switch kind {
	case "Delegate", "Undelegate":
		tx.Signer = w.acct("del")
		coin := sdk.NewCoin(BondDenom, sdkmath.NewInt(geti(a, "amt")))
		if kind == "Delegate" {
			tx.Msgs = []sdk.Msg{stakingtypes.NewMsgDelegate(tx.Signer.Addr().String(), w.valAddrOf(gets(a, "v")).String(), coin)}
		} else {
			tx.Msgs = []sdk.Msg{stakingtypes.NewMsgUndelegate(tx.Signer.Addr().String(), w.valAddrOf(gets(a, "v")).String(), coin)}
		}
	case "Redelegate":
		tx.Signer = w.acct("del")
		coin := sdk.NewCoin(BondDenom, sdkmath.NewInt(geti(a, "amt")))
		tx.Msgs = []sdk.Msg{stakingtypes.NewMsgBeginRedelegate(tx.Signer.Addr().String(), w.valAddrOf(gets(a, "v")).String(), w.valAddrOf(gets(a, "v2")).String(), coin)}
	case "Unjail":
		tx.Signer = w.opOf(gets(a, "v"))
		tx.Msgs = []sdk.Msg{slashingtypes.NewMsgUnjail(w.valAddrOf(gets(a, "v")).String())}
	case "CreateValidator":
		v := gets(a, "v")
		tx.Signer = w.opOf(v)
		if tx.Signer == nil {
			return nil, fmt.Errorf("no operator for %s", v)
		}
		kn := gets(a, "key")
		if _, ok := w.N.Keys[kn]; !ok {
			var idx int
			fmt.Sscanf(kn, "pk%d", &idx)
			w.N.addKey(newConsKey(kn, "pkey", idx))
		}
		key := w.N.Keys[kn]
		op := tx.Signer.ValAddr().String()
		again := false // a further attempt in the same block (the earlier one may fail): decided after the block
		for _, pv := range w.pendingVals {
			again = again || pv.op == op
		}
		if _, exists := w.N.ValByOp[op]; exists && !again {
			return nil, fmt.Errorf("validator %s exists", v)
		}
		w.pendingVals = append(w.pendingVals, pendingVal{name: v, op: op, key: kn})
		w.N.ValByOp[op] = v
		if ck := fmt.Sprintf("%x", []byte(key.Addr())); w.N.ValByCons[ck] == "" {
			w.N.ValByCons[ck] = v
		}
		if !again {
			w.N.ValNames = append(w.N.ValNames, v)
		}
		w.ValKey[v] = kn
		pkAny, err := codectypes.NewAnyWithValue(key.SDKPub())
		if err != nil {
			return nil, err
		}
		tx.Msgs = []sdk.Msg{&stakingtypes.MsgCreateValidator{
			Description: stakingtypes.Description{Moniker: v},
			Commission:  stakingtypes.NewCommissionRates(sdkmath.LegacyNewDecWithPrec(1, 1), sdkmath.LegacyOneDec(), sdkmath.LegacyOneDec()),
			MinSelfDelegation: sdkmath.OneInt(), ValidatorAddress: tx.Signer.ValAddr().String(), Pubkey: pkAny,
			Value: sdk.NewCoin(BondDenom, sdkmath.NewInt(geti(a, "amt"))),
		}}
	case "CreateConsumer":
		tx.Signer = w.acct(gets(a, "sender"))
		msg := &providertypes.MsgCreateConsumer{
			Submitter: tx.Signer.Addr().String(), ChainId: gets(a, "chain"),
			Metadata: providertypes.ConsumerMetadata{Name: "n-" + gets(a, "chain"), Description: "d", Metadata: "m"},
		}
		if ip, ok := a["init"].(map[string]any); ok {
			msg.InitializationParameters = w.initParamsOf(ip)
		}
		if ps, ok := a["shaping"].(map[string]any); ok {
			msg.PowerShapingParameters = w.shapingOf(ps)
		}
		if inf, ok := a["infr"].(map[string]any); ok {
			msg.InfractionParameters = w.infrOf(inf)
		}
		if ds := getl(a, "denoms"); has(a, "denoms") {
			msg.AllowlistedRewardDenoms = &providertypes.AllowlistedRewardDenoms{Denoms: ds}
		}
		tx.Msgs = []sdk.Msg{msg}
	case "UpdateConsumer":
		tx.Signer = w.acct(gets(a, "sender"))
		msg := &providertypes.MsgUpdateConsumer{
			Owner: tx.Signer.Addr().String(), ConsumerId: consIDOf(gets(a, "c")),
			NewOwnerAddress: w.addrOf(gets(a, "newOwner")), NewChainId: gets(a, "newChain"),
		}
		if ip, ok := a["init"].(map[string]any); ok {
			msg.InitializationParameters = w.initParamsOf(ip)
		}
		if ps, ok := a["shaping"].(map[string]any); ok {
			msg.PowerShapingParameters = w.shapingOf(ps)
		}
		if inf, ok := a["infr"].(map[string]any); ok {
			msg.InfractionParameters = w.infrOf(inf)
		}
		if ds := getl(a, "denoms"); has(a, "denoms") {
			msg.AllowlistedRewardDenoms = &providertypes.AllowlistedRewardDenoms{Denoms: ds}
		}
		if getb(a, "meta") {
			msg.Metadata = &providertypes.ConsumerMetadata{Name: "n2", Description: "d2", Metadata: "m2"}
		}
		tx.Msgs = []sdk.Msg{msg}
	case "Transfer":
		// an ordinary ICS-20 transfer of a provider-native denom to consumer `c` over its transfer channel
		tx.Signer = w.acct("u1")
		lk := w.Links[gets(a, "c")]
		if lk == nil || lk.PXfer == "" {
			return nil, fmt.Errorf("no transfer channel")
		}
		coin := sdk.NewCoin(gets(a, "denom"), sdkmath.NewInt(geti(a, "amt")))
		tx.Msgs = []sdk.Msg{transfertypes.NewMsgTransfer("transfer", lk.PXfer, coin, tx.Signer.Addr().String(), tx.Signer.Addr().String(),
			clienttypes.Height{}, uint64(c.GetContext().BlockTime().Add(2*time.Hour).UnixNano()), "")}
	case "Fees":
		// any transaction pays its fee into the fee collector: that is how fees arise on a consumer
		tx.Signer = w.acct("u1")
		tx.Fee = sdk.NewCoins(sdk.NewCoin(gets(a, "denom"), sdkmath.NewInt(geti(a, "amt"))))
		tx.Msgs = []sdk.Msg{banktypes.NewMsgSend(tx.Signer.Addr(), w.acct("rel4").Addr(), sdk.NewCoins(sdk.NewInt64Coin(BondDenom, 1)))}
	case "UpdateParams":
		params := c.PApp.ProviderKeeper.GetParams(c.GetContext())
		if has(a, "M") {
			params.MaxProviderConsensusValidators = geti(a, "M")
		}
		if has(a, "Mstr") { // values beyond 32 bits travel as strings (the trace is read by TLC)
			n, _ := strconv.ParseInt(gets(a, "Mstr"), 10, 64)
			params.MaxProviderConsensusValidators = n
		}
		if has(a, "bpe") {
			params.BlocksPerEpoch = geti(a, "bpe")
		}
		if has(a, "epochsToReward") {
			params.NumberOfEpochsToStartReceivingRewards = geti(a, "epochsToReward")
		}
		tx.Signer = w.acct(gets(a, "authority"))
		tx.Msgs = []sdk.Msg{&providertypes.MsgUpdateParams{Authority: w.addrOf(gets(a, "authority")), Params: params}}
	case "ChangeRewardDenoms":
		tx.Signer = w.acct(gets(a, "authority"))
		tx.Msgs = []sdk.Msg{&providertypes.MsgChangeRewardDenoms{Authority: w.addrOf(gets(a, "authority")), DenomsToAdd: getl(a, "add"), DenomsToRemove: getl(a, "remove")}}
	case "RemoveConsumer":
		tx.Signer = w.acct(gets(a, "sender"))
		tx.Msgs = []sdk.Msg{&providertypes.MsgRemoveConsumer{Owner: tx.Signer.Addr().String(), ConsumerId: consIDOf(gets(a, "c"))}}
	case "OptIn", "OptOut", "AssignKey", "SetCommission":
		v := gets(a, "v")
		signer := gets(a, "signer")
		if signer == "" {
			tx.Signer = w.opOf(v)
		} else {
			tx.Signer = w.acct(signer)
		}
		cid := consIDOf(gets(a, "c"))
		valAddr := w.valAddrOf(v).String()
		keyJSON := ""
		if kn := gets(a, "key"); kn != "" {
			keyJSON = w.N.Keys[kn].JSON()
		}
		switch kind {
		case "OptIn":
			tx.Msgs = []sdk.Msg{&providertypes.MsgOptIn{ProviderAddr: valAddr, ConsumerKey: keyJSON, Signer: tx.Signer.Addr().String(), ConsumerId: cid}}
		case "OptOut":
			tx.Msgs = []sdk.Msg{&providertypes.MsgOptOut{ProviderAddr: valAddr, Signer: tx.Signer.Addr().String(), ConsumerId: cid}}
		case "AssignKey":
			tx.Msgs = []sdk.Msg{&providertypes.MsgAssignConsumerKey{ProviderAddr: valAddr, ConsumerKey: keyJSON, Signer: tx.Signer.Addr().String(), ConsumerId: cid}}
		case "SetCommission":
			tx.Msgs = []sdk.Msg{&providertypes.MsgSetConsumerCommissionRate{ProviderAddr: valAddr, Rate: sdkmath.LegacyMustNewDecFromStr(gets(a, "rate")), Signer: tx.Signer.Addr().String(), ConsumerId: cid}}
		}
	default:
		return nil, fmt.Errorf("unknown action %q", kind)
	}
	return tx, nil
}

func (w *World) infrOf(m map[string]any) *providertypes.InfractionParameters {
	ip := &providertypes.InfractionParameters{}
	if ds, ok := m["ds"].(map[string]any); ok {
		ip.DoubleSign = w.slashJailOf(ds)
	}
	if dt, ok := m["dt"].(map[string]any); ok {
		ip.Downtime = w.slashJailOf(dt)
	}
	return ip
}

// relayRecvTx: on provider: {"a":"RelayTo","c":"c0","n":2} delivers consumer->provider packets;
// on consumer chain c0: {"a":"RelayTo","n":2} delivers provider->consumer packets.
func (w *World) relayRecvTx(dst *Chain, a map[string]any) (*TxSpec, error) {
	n := int(geti(a, "n"))
	if n == 0 {
		n = 1
	}
	var src *Chain
	var lk *Link
	if dst.IsProv {
		src = w.Chains[gets(a, "c")]
		lk = w.Links[gets(a, "c")]
	} else {
		src = w.P
		lk = w.Links[dst.Name]
	}
	if src == nil || lk == nil {
		return nil, fmt.Errorf("no link")
	}
	port, ch, client := ccvtypes.ProviderPortID, lk.PChan, lk.CClient
	if dst.IsProv {
		port, ch, client = ccvtypes.ConsumerPortID, lk.CChan, lk.PClient
	}
	if gets(a, "port") == "transfer" {
		port = "transfer"
		ch, client = lk.PXfer, lk.CClient
		if dst.IsProv {
			ch, client = lk.CXfer, lk.PClient
		}
	}
	tx, batch := w.recvTx(src, dst, client, port, ch, n, w.acct("rel1"))
	if tx == nil {
		return nil, fmt.Errorf("nothing to relay")
	}
	tx.Args = map[string]any{"c": srcOrDstName(src, dst), "n": len(batch), "port": port}
	w.markReceived(src, dst, port, ch, batch)
	tx.OnResult = func(code uint32) {
		if code != 0 {
			w.unmarkReceived(src, dst, port, ch, batch)
		}
	}
	return tx, nil
}

func srcOrDstName(src, dst *Chain) string {
	if src.IsProv {
		return dst.Name
	}
	return src.Name
}

func (w *World) relayAckTx(dst *Chain, a map[string]any) (*TxSpec, error) {
	n := int(geti(a, "n"))
	if n == 0 {
		n = 1
	}
	// dst is the original sender of the packets
	var other *Chain
	var lk *Link
	if dst.IsProv {
		other = w.Chains[gets(a, "c")]
		lk = w.Links[gets(a, "c")]
	} else {
		other = w.P
		lk = w.Links[dst.Name]
	}
	if other == nil || lk == nil {
		return nil, fmt.Errorf("no link")
	}
	port, ch, client := ccvtypes.ConsumerPortID, lk.CChan, lk.CClient
	if dst.IsProv {
		port, ch, client = ccvtypes.ProviderPortID, lk.PChan, lk.PClient
	}
	if gets(a, "port") == "transfer" {
		port = "transfer"
		ch, client = lk.CXfer, lk.CClient
		if dst.IsProv {
			ch, client = lk.PXfer, lk.PClient
		}
	}
	tx, batch := w.ackTx(dst, other, client, port, ch, n, w.acct("rel2"))
	if tx == nil {
		return nil, fmt.Errorf("no acks to relay")
	}
	tx.Args = map[string]any{"c": srcOrDstName(dst, other), "n": len(batch), "port": port}
	w.markAcked(dst, port, ch, batch)
	tx.OnResult = func(code uint32) {
		if code != 0 {
			k := chanKey(dst.Name, port, ch)
			w.net.acks[k] = append(append([]*Packet{}, batch...), w.net.acks[k]...)
		}
	}
	return tx, nil
}

// timeoutTx builds MsgTimeout on the provider for the oldest undelivered VSC packet to consumer `name`,
// if its timeout has passed on the consumer chain.
func (w *World) timeoutTx(name string) (*TxSpec, error) {
	c, lk := w.Chains[name], w.Links[name]
	if c == nil || lk == nil || lk.PChan == "" || c.Halted {
		return nil, fmt.Errorf("no link")
	}
	k := chanKey("p", ccvtypes.ProviderPortID, lk.PChan)
	q := w.net.pkts[k]
	if len(q) == 0 {
		return nil, fmt.Errorf("nothing in flight")
	}
	pk := q[0]
	if uint64(c.LatestCommittedHeader.GetTime().UnixNano()) < pk.P.TimeoutTimestamp {
		return nil, fmt.Errorf("not timed out")
	}
	rel := w.acct("rel4")
	c.ProduceBlock(nil, 5, nil)
	key := host.NextSequenceRecvKey(pk.P.DestinationPort, pk.P.DestinationChannel)
	proof, ph := c.QueryProof(key)
	next, _ := c.App.GetIBCKeeper().ChannelKeeper.GetNextSequenceRecv(c.GetContext(), pk.P.DestinationPort, pk.P.DestinationChannel)
	msgs := w.withUpdate(w.P, lk.PClient, c, rel, channeltypes.NewMsgTimeout(pk.P, next, proof, ph, rel.Addr().String()))
	tx := &TxSpec{Kind: "Timeout", Args: map[string]any{"c": name}, Signer: rel, Msgs: msgs}
	tx.OnResult = func(code uint32) {
		if code == 0 {
			w.net.pkts[k] = w.net.pkts[k][1:]
		}
	}
	return tx, nil
}

// ForgeSlash makes the (malicious) consumer chain commit a slash packet of its choosing: the packet is sent through
// the consumer's channel keeper outside any transaction, as a compromised consumer binary could.
func (w *World) ForgeSlash(name, key string, vscID int64, inf string, power int64) error {
	c, lk := w.Chains[name], w.Links[name]
	if c == nil || lk == nil || lk.CChan == "" || c.Halted {
		return fmt.Errorf("no channel")
	}
	k, ok := w.N.Keys[key]
	if !ok {
		return fmt.Errorf("unknown key")
	}
	infraction := stakingtypes.Infraction_INFRACTION_DOWNTIME
	if inf == "doublesign" {
		infraction = stakingtypes.Infraction_INFRACTION_DOUBLE_SIGN
	}
	sp := ccvtypes.NewSlashPacketData(abcitypes.Validator{Address: k.Addr(), Power: power}, uint64(vscID), infraction)
	data := ccvtypes.ConsumerPacketData{Type: ccvtypes.SlashPacket, Data: &ccvtypes.ConsumerPacketData_SlashPacketData{SlashPacketData: sp}}
	ctx := c.GetContext()
	timeout := uint64(ctx.BlockTime().Add(24 * time.Hour).UnixNano())
	seq, err := c.App.GetIBCKeeper().ChannelKeeper.SendPacket(ctx, ccvtypes.ConsumerPortID, lk.CChan, clienttypes.Height{}, timeout, data.GetBytes())
	if err != nil {
		return err
	}
	ch, _ := c.App.GetIBCKeeper().ChannelKeeper.GetChannel(ctx, ccvtypes.ConsumerPortID, lk.CChan)
	pkt := channeltypes.NewPacket(data.GetBytes(), seq, ccvtypes.ConsumerPortID, lk.CChan, ccvtypes.ProviderPortID, ch.Counterparty.ChannelId, clienttypes.Height{}, timeout)
	kk := chanKey(c.Name, ccvtypes.ConsumerPortID, lk.CChan)
	w.net.pkts[kk] = append(w.net.pkts[kk], &Packet{P: pkt, Src: c.Name, SentAt: c.App.LastBlockHeight() + 1})
	w.rec.emit(c.Name, "Forge", map[string]any{"key": key, "id": vscID, "inf": inf}, nil, nil)
	return nil
}

// Block executes a block step with abstract txs; txs that cannot be built are skipped (recorded as such).
func (w *World) Block(chain string, dt int64, absent []string, actions ...map[string]any) *BlockResult {
	c := w.Chains[chain]
	if c == nil {
		return &BlockResult{Err: "no chain " + chain}
	}
	var txs []TxSpec
	// environment precondition: the provider's validator set never becomes empty (CometBFT cannot run otherwise)
	live := 99
	if c.IsProv {
		live = w.providerLive()
		if live <= 2 {
			absent = nil
		}
	}
	for _, a := range actions {
		if live <= 2 {
			switch gets(a, "a") {
			case "Undelegate", "Redelegate", "RelayTo":
				continue
			}
		}
		switch gets(a, "a") {
		case "RelayTo":
			// provider-bound packets and non-batched deliveries: one packet per transaction
			n := int(geti(a, "n"))
			if n == 0 {
				n = 1
			}
			if getb(a, "batch") {
				if tx, err := w.relayRecvTx(c, a); err == nil {
					txs = append(txs, *tx)
				}
				continue
			}
			for i := 0; i < n; i++ {
				a1 := map[string]any{}
				for k, v := range a {
					a1[k] = v
				}
				a1["n"] = 1
				tx, err := w.relayRecvTx(c, a1)
				if err != nil {
					break
				}
				txs = append(txs, *tx)
			}
			continue
		case "AckTo":
			if tx, err := w.relayAckTx(c, a); err == nil {
				txs = append(txs, *tx)
			}
			continue
		case "TimeoutTo":
			if tx, err := w.timeoutTx(gets(a, "c")); err == nil {
				txs = append(txs, *tx)
			}
			continue
		case "UpdateClient":
			// keep the light client of the counterparty alive
			name := gets(a, "c")
			if !c.IsProv {
				name = c.Name
			}
			lk, other := w.Links[name], w.Chains[name]
			if c.IsProv && (lk == nil || other == nil) || !c.IsProv && lk == nil {
				continue
			}
			client, src := lk.PClient, other
			if !c.IsProv {
				client, src = lk.CClient, w.P
			}
			if src.Halted || !w.needsUpdate(c, client, src) {
				continue
			}
			if m, err := w.updateClientMsg(c, client, src, w.acct("rel3")); err == nil {
				txs = append(txs, TxSpec{Kind: "UpdateClient", Args: map[string]any{"c": name}, Signer: w.acct("rel3"), Msgs: []sdk.Msg{m}})
			}
			continue
		}
		tx, err := w.buildTx(c, a)
		if err != nil {
			continue
		}
		txs = append(txs, *tx)
	}
	ab := map[string]bool{}
	for _, k := range absent {
		ab[k] = true
	}
	return c.ProduceBlock(txs, dt, ab)
}

// ConsumerGovExec sets the consumer's reward denoms through its own governance authority (router-level, as x/gov does).
func (w *World) ConsumerGovExec(name string, rewardDenoms, providerDenoms []string) {
	c := w.Chains[name]
	if c == nil || c.Halted {
		return
	}
	ctx := c.GetContext()
	params := c.CApp.ConsumerKeeper.GetConsumerParams(ctx)
	params.RewardDenoms = rewardDenoms
	params.ProviderRewardDenoms = providerDenoms
	msg := &consumertypes.MsgUpdateParams{Authority: c.CApp.ConsumerKeeper.GetAuthority(), Params: params}
	handler := c.CApp.MsgServiceRouter().Handler(msg)
	cctx, write := ctx.CacheContext()
	code := 0
	if _, err := handler(cctx, msg); err != nil {
		code = 2
	} else {
		write()
	}
	pctx, _ := c.GetContext().CacheContext()
	w.rec.emit(c.Name, "Tx:ConsumerUpdateParams", map[string]any{"rewardDenoms": rewardDenoms, "gov": true}, map[string]any{"code": code, "log": ""}, w.projectConsumer(c, pctx))
}

// CompleteTransferChannel finishes the handshake of the transfer channel the consumer opened in its OnChanOpenAck.
func (w *World) CompleteTransferChannel(name string) error {
	c, lk := w.Chains[name], w.Links[name]
	if c == nil || lk == nil {
		return fmt.Errorf("no chain")
	}
	w.hsConsumer = name
	cChan := c.CApp.ConsumerKeeper.GetDistributionTransmissionChannel(c.GetContext())
	if cChan == "" {
		return fmt.Errorf("no transfer channel initiated")
	}
	a := chanAttempt{Order: channeltypes.UNORDERED, PPort: "transfer", CPort: "transfer", Version: "ics20-1", PConn: lk.PConn, CConn: lk.CConn}
	pChan, ok := w.chanTry(name, a, cChan)
	if !ok {
		return fmt.Errorf("transfer try failed")
	}
	if !w.chanAck(name, a, cChan, pChan) {
		return fmt.Errorf("transfer ack failed")
	}
	if !w.chanConfirm(name, a, cChan, pChan) {
		return fmt.Errorf("transfer confirm failed")
	}
	lk.CXfer, lk.PXfer = cChan, pChan
	return nil
}

// VoucherDenom is the denom under which `base` sent by consumer `name` over its transfer channel appears on the provider.
func (w *World) VoucherDenom(name, base string) string {
	lk := w.Links[name]
	return ccvtypes.ParseDenomTrace("transfer/" + lk.PXfer + "/" + base).IBCDenom()
}

// providerLive counts bonded, unjailed provider validators.
func (w *World) providerLive() int {
	ctx := w.P.GetContext()
	vals, err := w.P.PApp.StakingKeeper.GetBondedValidatorsByPower(ctx)
	if err != nil {
		return 0
	}
	n := 0
	for _, v := range vals {
		if !v.Jailed {
			n++
		}
	}
	return n
}

// GovExec executes governance-authority messages the way x/gov does when a proposal passes: through the message
// router on a cache context that is written only if the handler succeeds (ValidateBasic was run at submission).
func (w *World) GovExec(actions ...map[string]any) {
	c := w.P
	for _, a := range actions {
		a["sender"] = "gov"
		a["authority"] = "gov"
		tx, err := w.buildTx(c, a)
		if err != nil || len(tx.Msgs) != 1 {
			continue
		}
		msg := tx.Msgs[0]
		ctx := c.GetContext()
		code := 0
		logmsg := ""
		if vb, ok := msg.(interface{ ValidateBasic() error }); ok {
			if err := vb.ValidateBasic(); err != nil {
				code, logmsg = 1, err.Error()
			}
		}
		if code == 0 {
			handler := c.PApp.MsgServiceRouter().Handler(msg)
			cctx, write := ctx.CacheContext()
			func() {
				defer func() {
					if r := recover(); r != nil {
						code, logmsg = 111, fmt.Sprint(r)
					}
				}()
				if _, err := handler(cctx, msg); err != nil {
					code, logmsg = 2, err.Error()
				} else {
					write()
				}
			}()
		}
		args := map[string]any{}
		for k, v := range tx.Args {
			args[k] = v
		}
		args["gov"] = true
		pctx, _ := c.GetContext().CacheContext()
		w.rec.emit("p", "Tx:"+tx.Kind, args, map[string]any{"code": code, "log": trunc(logmsg, 160)}, w.projectProvider(c, pctx))
	}
}

// StartConsumer instantiates the consumer chain for a launched consumer from the provider's stored genesis.
func (w *World) StartConsumer(name string) *Chain {
	cid := consIDOf(name)
	c := w.newConsumer(w.T, cid)
	pk := w.P.PApp.ProviderKeeper
	pcl, _ := pk.GetConsumerClientId(w.P.GetContext(), cid)
	ccl, _ := c.CApp.ConsumerKeeper.GetProviderClientID(c.GetContext())
	w.Links[name] = &Link{PClient: pcl, CClient: ccl}
	return c
}

var connVersion = connectiontypes.GetCompatibleVersions()[0]

func (w *World) oneTx(c *Chain, kind string, signer *Account, msgs ...sdk.Msg) (*TxResult, *BlockResult) {
	br := c.ProduceBlock([]TxSpec{{Kind: kind, Args: map[string]any{"c": w.hsConsumer}, Signer: signer, Msgs: msgs}}, 5, nil)
	if br.Err != "" || len(br.Txs) == 0 {
		return &TxResult{Code: 999, Log: br.Err}, br
	}
	return &br.Txs[0], br
}

// withUpdate prepends a client update (if needed) so that dst can verify proofs about src's latest committed state.
func (w *World) withUpdate(dst *Chain, client string, src *Chain, signer *Account, msgs ...sdk.Msg) []sdk.Msg {
	if w.needsUpdate(dst, client, src) {
		if m, err := w.updateClientMsg(dst, client, src, signer); err == nil {
			return append([]sdk.Msg{m}, msgs...)
		}
	}
	return msgs
}

func prefixOf() commitmenttypes.MerklePrefix { return commitmenttypes.NewMerklePrefix([]byte("ibc")) }

// Connect runs the connection handshake consumer(A) <-> provider(B) on the clients recorded in the link.
func (w *World) Connect(name string) error {
	w.hsConsumer = name
	c, p, lk := w.Chains[name], w.P, w.Links[name]
	rel := w.acct("rel1")
	// A: ConnOpenInit
	r, _ := w.oneTx(c, "ConnOpenInit", rel, connectiontypes.NewMsgConnectionOpenInit(lk.CClient, lk.PClient, prefixOf(), nil, 0, rel.Addr().String()))
	if r.Code != 0 {
		return fmt.Errorf("ConnOpenInit: %s", r.Log)
	}
	id, err := ibctesting.ParseConnectionIDFromEvents(r.Events)
	if err != nil {
		return err
	}
	lk.CConn = id
	// B: ConnOpenTry
	c.ProduceBlock(nil, 5, nil)
	proof, ph := c.QueryProof(host.ConnectionKey(lk.CConn))
	msgs := w.withUpdate(p, lk.PClient, c, rel, connectiontypes.NewMsgConnectionOpenTry(lk.PClient, lk.CConn, lk.CClient, prefixOf(),
		[]*connectiontypes.Version{connVersion}, 0, proof, ph, rel.Addr().String()))
	r, _ = w.oneTx(p, "ConnOpenTry", rel, msgs...)
	if r.Code != 0 {
		return fmt.Errorf("ConnOpenTry: %s", r.Log)
	}
	id, err = ibctesting.ParseConnectionIDFromEvents(r.Events)
	if err != nil {
		return err
	}
	lk.PConn = id
	// A: ConnOpenAck
	p.ProduceBlock(nil, 5, nil)
	proof, ph = p.QueryProof(host.ConnectionKey(lk.PConn))
	msgs = w.withUpdate(c, lk.CClient, p, rel, connectiontypes.NewMsgConnectionOpenAck(lk.CConn, lk.PConn, proof, ph, connVersion, rel.Addr().String()))
	r, _ = w.oneTx(c, "ConnOpenAck", rel, msgs...)
	if r.Code != 0 {
		return fmt.Errorf("ConnOpenAck: %s", r.Log)
	}
	// B: ConnOpenConfirm
	c.ProduceBlock(nil, 5, nil)
	proof, ph = c.QueryProof(host.ConnectionKey(lk.CConn))
	msgs = w.withUpdate(p, lk.PClient, c, rel, connectiontypes.NewMsgConnectionOpenConfirm(lk.PConn, proof, ph, rel.Addr().String()))
	r, _ = w.oneTx(p, "ConnOpenConfirm", rel, msgs...)
	if r.Code != 0 {
		return fmt.Errorf("ConnOpenConfirm: %s", r.Log)
	}
	return nil
}

// ChanCfg describes one channel-handshake attempt (deviations from the CCV defaults are the point of C17).
type ChanCfg struct {
	Order            channeltypes.Order
	APort, BPort     string
	Version          string
	AConn, BConn     string
	InitFromProvider bool
}

func (w *World) defaultChanCfg(name string) ChanCfg {
	lk := w.Links[name]
	return ChanCfg{Order: channeltypes.ORDERED, APort: ccvtypes.ConsumerPortID, BPort: ccvtypes.ProviderPortID,
		Version: ccvtypes.Version, AConn: lk.CConn, BConn: lk.PConn}
}

// OpenChannel runs the four channel handshake steps consumer(A) -> provider(B); returns the step that failed, if any.
func (w *World) OpenChannel(name string, cfg ChanCfg) (string, error) {
	w.hsConsumer = name
	c, p, lk := w.Chains[name], w.P, w.Links[name]
	rel := w.acct("rel1")
	r, _ := w.oneTx(c, "ChanOpenInit", rel, channeltypes.NewMsgChannelOpenInit(cfg.APort, cfg.Version, cfg.Order, []string{cfg.AConn}, cfg.BPort, rel.Addr().String()))
	if r.Code != 0 {
		return "init", fmt.Errorf("ChanOpenInit: %s", r.Log)
	}
	aChan, err := ibctesting.ParseChannelIDFromEvents(r.Events)
	if err != nil {
		return "init", err
	}
	c.ProduceBlock(nil, 5, nil)
	proof, ph := c.QueryProof(host.ChannelKey(cfg.APort, aChan))
	msgs := w.withUpdate(p, lk.PClient, c, rel, channeltypes.NewMsgChannelOpenTry(cfg.BPort, cfg.Version, cfg.Order, []string{cfg.BConn},
		cfg.APort, aChan, cfg.Version, proof, ph, rel.Addr().String()))
	r, _ = w.oneTx(p, "ChanOpenTry", rel, msgs...)
	if r.Code != 0 {
		return "try", fmt.Errorf("ChanOpenTry: %s", r.Log)
	}
	bChan, err := ibctesting.ParseChannelIDFromEvents(r.Events)
	if err != nil {
		return "try", err
	}
	bVersion := p.App.GetIBCKeeper().ChannelKeeper
	bch, _ := bVersion.GetChannel(p.GetContext(), cfg.BPort, bChan)
	p.ProduceBlock(nil, 5, nil)
	proof, ph = p.QueryProof(host.ChannelKey(cfg.BPort, bChan))
	msgs = w.withUpdate(c, lk.CClient, p, rel, channeltypes.NewMsgChannelOpenAck(cfg.APort, aChan, bChan, bch.Version, proof, ph, rel.Addr().String()))
	r, _ = w.oneTx(c, "ChanOpenAck", rel, msgs...)
	if r.Code != 0 {
		return "ack", fmt.Errorf("ChanOpenAck: %s", r.Log)
	}
	c.ProduceBlock(nil, 5, nil)
	proof, ph = c.QueryProof(host.ChannelKey(cfg.APort, aChan))
	msgs = w.withUpdate(p, lk.PClient, c, rel, channeltypes.NewMsgChannelOpenConfirm(cfg.BPort, bChan, proof, ph, rel.Addr().String()))
	r, _ = w.oneTx(p, "ChanOpenConfirm", rel, msgs...)
	if r.Code != 0 {
		return "confirm", fmt.Errorf("ChanOpenConfirm: %s", r.Log)
	}
	if cfg.APort == ccvtypes.ConsumerPortID {
		lk.CChan, lk.PChan = aChan, bChan
	} else if cfg.APort == "transfer" {
		lk.CXfer, lk.PXfer = aChan, bChan
	}
	return "", nil
}
