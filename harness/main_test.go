package harness

import (
	"fmt"
	"os"
	"path/filepath"
	"strconv"
	"testing"
)

func envInt(k string, def int64) int64 {
	if v := os.Getenv(k); v != "" {
		if n, err := strconv.ParseInt(v, 10, 64); err == nil {
			return n
		}
	}
	return def
}

// TestGen is the generator entry point used by bin/verif:
//   VERIF_OUT=<dir> VERIF_CORPUS=<name> VERIF_SEED0=<first seed> VERIF_N=<count> VERIF_STEPS=<steps>
func TestGen(t *testing.T) {
	out := os.Getenv("VERIF_OUT")
	if out == "" {
		t.Skip("VERIF_OUT not set")
	}
	corpus := os.Getenv("VERIF_CORPUS")
	if corpus == "" {
		corpus = "random"
	}
	seed0 := envInt("VERIF_SEED0", 1)
	n := envInt("VERIF_N", 1)
	steps := int(envInt("VERIF_STEPS", 80))
	os.MkdirAll(out, 0o755)
	if os.Getenv("VERIF_FULLSNAP") != "" {
		deltaDefault = false
	}
	if os.Getenv("VERIF_DELTACHECK") != "" {
		deltaCheck = true
	}
	for i := int64(0); i < n; i++ {
		seed := seed0 + i
		name := fmt.Sprintf("%s_%d", corpus, seed)
		func() {
			defer func() {
				if r := recover(); r != nil {
					// a harness failure is not a verdict: leave a marker, no trace
					os.WriteFile(filepath.Join(out, name+".harness_error"), []byte(fmt.Sprint(r)), 0o644)
				}
			}()
			w := runCorpus(t, corpus, seed, steps)
			if w == nil {
				return
			}
			if err := w.rec.WriteTrace(filepath.Join(out, name+".ndjson")); err != nil {
				t.Fatal(err)
			}
		}()
	}
}

// runReplicas executes the same history on independent application instances and records, per block, what each
// replica exposed to consensus (C18). The histories come from the same generators as for the other properties.
func runReplicas(t *testing.T, seed int64, steps int) *World {
	const R = 3
	var obs [R][]ObsRec
	for r := 0; r < R; r++ {
		recordingDefault = false
		obsDefault = true
		var w *World
		if seed%2 == 0 {
			w = scenarios["scripted"](t, seed/2)
		} else {
			w = RunRandom(t, seed, "default", steps).W
		}
		obs[r] = w.Obs
	}
	recordingDefault, obsDefault = true, false
	out := &World{}
	out.rec = &Recorder{w: out, on: true}
	out.rec.events = append(out.rec.events, map[string]any{"i": 1, "chain": "p", "a": "Init", "args": map[string]any{"replicas": R, "seed": seed}, "res": map[string]any{}, "s": minimalProviderState()})
	n := len(obs[0])
	for r := 1; r < R; r++ {
		if len(obs[r]) < n {
			n = len(obs[r])
		}
	}
	for i := 0; i < n; i++ {
		args := map[string]any{"chain": obs[0][i].Chain, "h": obs[0][i].H}
		for r := 0; r < R; r++ {
			args[fmt.Sprintf("r%d", r+1)] = obs[r][i].Chain + "/" + fmt.Sprint(obs[r][i].H) + "/" + obs[r][i].App + "/" + obs[r][i].Res
		}
		out.rec.emit("d", "Obs", args, nil, nil)
	}
	lens := map[string]any{}
	for r := 0; r < R; r++ {
		lens[fmt.Sprintf("r%d", r+1)] = len(obs[r])
	}
	out.rec.emit("d", "ObsLen", lens, nil, nil)
	return out
}

func minimalProviderState() map[string]any {
	return map[string]any{"vscId": 0, "lps": map[string]any{}, "meter": 0, "vals": map[string]any{}, "cons": map[string]any{}}
}

func runCorpus(t *testing.T, corpus string, seed int64, steps int) *World {
	switch corpus {
	case "replicas":
		return runReplicas(t, seed, steps)
	case "random":
		return RunRandom(t, seed, "default", steps).W
	}
	if f, ok := scenarios[corpus]; ok {
		return f(t, seed)
	}
	t.Fatalf("unknown corpus %q", corpus)
	return nil
}

var scenarios = map[string]func(t *testing.T, seed int64) *World{}
