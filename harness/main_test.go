package harness

import (
	"fmt"
	"os"
	"path/filepath"
	"strconv"
	"testing"
)

func envInt(k string, def int64) int64 {
	if v := os.Getenv(k); v != "" {
		if n, err := strconv.ParseInt(v, 10, 64); err == nil {
			return n
		}
	}
	return def
}

// TestGen is the generator entry point used by bin/verif:
//   VERIF_OUT=<dir> VERIF_CORPUS=<name> VERIF_SEED0=<first seed> VERIF_N=<count> VERIF_STEPS=<steps>
func TestGen(t *testing.T) {
	out := os.Getenv("VERIF_OUT")
	if out == "" {
		t.Skip("VERIF_OUT not set")
	}
	corpus := os.Getenv("VERIF_CORPUS")
	if corpus == "" {
		corpus = "random"
	}
	seed0 := envInt("VERIF_SEED0", 1)
	n := envInt("VERIF_N", 1)
	steps := int(envInt("VERIF_STEPS", 80))
	os.MkdirAll(out, 0o755)
	for i := int64(0); i < n; i++ {
		seed := seed0 + i
		name := fmt.Sprintf("%s_%d", corpus, seed)
		func() {
			defer func() {
				if r := recover(); r != nil {
					// a harness failure is not a verdict: leave a marker, no trace
					os.WriteFile(filepath.Join(out, name+".harness_error"), []byte(fmt.Sprint(r)), 0o644)
				}
			}()
			w := runCorpus(t, corpus, seed, steps)
			if w == nil {
				return
			}
			if err := w.rec.WriteTrace(filepath.Join(out, name+".ndjson")); err != nil {
				t.Fatal(err)
			}
		}()
	}
}

func runCorpus(t *testing.T, corpus string, seed int64, steps int) *World {
	switch corpus {
	case "random":
		return RunRandom(t, seed, "default", steps).W
	}
	if f, ok := scenarios[corpus]; ok {
		return f(t, seed)
	}
	t.Fatalf("unknown corpus %q", corpus)
	return nil
}

var scenarios = map[string]func(t *testing.T, seed int64) *World{}
