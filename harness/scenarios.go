package harness

import (
	"fmt"
	"testing"

	sdk "github.com/cosmos/cosmos-sdk/types"

	connectiontypes "github.com/cosmos/ibc-go/v10/modules/core/03-connection/types"
	channeltypes "github.com/cosmos/ibc-go/v10/modules/core/04-channel/types"
	host "github.com/cosmos/ibc-go/v10/modules/core/24-host"
	ibctesting "github.com/cosmos/ibc-go/v10/testing"

	ccvtypes "github.com/cosmos/interchain-security/v7/x/ccv/types"
)

// Scripted scenarios: deterministic histories aimed at situations the random driver reaches rarely.
// A corpus "scripted" trace is scenario (seed mod N) with parameters varied by seed div N.

type scenario struct {
	name string
	run  func(t *testing.T, w *World, variant int)
}

var scripted = []scenario{
	{"rename_revision", scRenameRevision},
	{"shared_connection", scSharedConnection},
	{"late_channel_many_packets", scLateChannel},
	{"stop_and_remove", scStopAndRemove},
	{"handshake", scHandshake},
	{"mixed_consumers", scMixedConsumers},
	{"key_rotation", scKeyRotation},
	{"lifecycle_corners", scLifecycleCorners},
	{"authority", scAuthority},
	{"forged_slash", scForgedSlash},
}

func init() {
	scenarios["faults"] = func(t *testing.T, seed int64) *World {
		cfg := DefaultConfig()
		cfg.Unbonding = 4 * 3600
		cfg.ConsUnbonding = 3 * 3600
		cfg.CCVTimeout = 3 * 3600
		cfg.BlocksPerEpoch = 2
		w := NewWorld(t, cfg)
		w.rec.Start()
		w.rec.emit("p", "Scenario", map[string]any{"name": "faults", "variant": int(seed)}, nil, nil)
		w.Block("p", 5, nil)
		scFaults(t, w, int(seed))
		return w
	}
	scenarios["rewards"] = func(t *testing.T, seed int64) *World {
		cfg := DefaultConfig()
		cfg.Unbonding = 4 * 3600
		cfg.ConsUnbonding = 3 * 3600
		cfg.BlocksPerEpoch = int64(1 + seed%2)
		cfg.EpochsToReward = int64(seed % 3)
		w := NewWorld(t, cfg)
		w.rec.Start()
		w.rec.emit("p", "Scenario", map[string]any{"name": "rewards", "variant": int(seed)}, nil, nil)
		w.Block("p", 5, nil)
		scRewards(t, w, int(seed))
		return w
	}
	scenarios["evidence"] = func(t *testing.T, seed int64) *World {
		cfg := DefaultConfig()
		cfg.Unbonding = 4 * 3600
		cfg.ConsUnbonding = 3 * 3600
		cfg.Tokens = []int64{3000000, 2000000, 2000000, 1000000}
		w := NewWorld(t, cfg)
		w.rec.Start()
		w.rec.emit("p", "Scenario", map[string]any{"name": "evidence", "variant": int(seed)}, nil, nil)
		w.Block("p", 5, nil)
		if seed%3 == 2 {
			scMisbehaviour(t, w, int(seed)/3)
		} else {
			scEvidence(t, w, int(seed)-int(seed+1)/3) // consecutive variants for the double-voting seeds
		}
		return w
	}
	scenarios["scripted"] = func(t *testing.T, seed int64) *World {
		sc := scripted[int(seed)%len(scripted)]
		cfg := DefaultConfig()
		cfg.Unbonding = 4 * 3600
		cfg.ConsUnbonding = 3 * 3600
		cfg.CCVTimeout = 3 * 3600
		cfg.BlocksPerEpoch = int64(1 + (seed/int64(len(scripted)))%3)
		if sc.name == "forged_slash" {
			cfg.NumVals = 5
			cfg.Tokens = []int64{3000000, 2000000, 2000000, 1000000, 1000000}
			cfg.MaxProvVals = 5
			cfg.ReplenishFrac = "1.0"
			cfg.ReplenishPer = 60
		}
		if sc.name == "mixed_consumers" {
			cfg.NumVals = 5
			cfg.Tokens = []int64{5000000, 4000000, 3000000, 2000000, 1000000}
			cfg.MaxProvVals = []int64{5, 3, 4}[(seed/int64(len(scripted)))%3]
		}
		w := NewWorld(t, cfg)
		w.rec.Start()
		w.rec.emit("p", "Scenario", map[string]any{"name": sc.name, "variant": int(seed) / len(scripted)}, nil, nil)
		w.Block("p", 5, nil)
		sc.run(t, w, int(seed)/len(scripted))
		return w
	}
}

func (w *World) now() int64 { return w.secs(w.Now) }

// launchConsumer creates a consumer owned by o1 with the given opted-in validators and lets it launch.
func (w *World) quickConsumer(chain string, rev int, vals []string, extra map[string]any) string {
	a := map[string]any{"a": "CreateConsumer", "sender": "o1", "chain": chain, "init": map[string]any{"initRev": rev, "spawn": w.now() + 30}}
	for k, v := range extra {
		if k == "init" {
			for ik, iv := range v.(map[string]any) {
				a["init"].(map[string]any)[ik] = iv
			}
			continue
		}
		a[k] = v
	}
	br := w.Block("p", 5, nil, a)
	id := ""
	if len(br.Txs) > 0 && br.Txs[0].Code == 0 {
		id = fmt.Sprintf("c%d", w.nextConsumerID()-1)
	}
	var txs []map[string]any
	for _, v := range vals {
		txs = append(txs, map[string]any{"a": "OptIn", "v": v, "c": id})
	}
	w.Block("p", 5, nil, txs...)
	for i := 0; i < 5; i++ {
		w.Block("p", 10, nil)
	}
	return id
}

func (w *World) nextConsumerID() uint64 {
	n, _ := w.P.PApp.ProviderKeeper.GetConsumerId(w.P.GetContext())
	return n
}

func (w *World) keepAlive(c string) {
	if ch := w.Chains[c]; ch != nil && !ch.Halted {
		w.Block(c, 5, nil, map[string]any{"a": "UpdateClient"})
		w.Block("p", 5, nil, map[string]any{"a": "UpdateClient", "c": c})
	}
}

// a pre-launch consumer is renamed to a chain id of another revision while its stored initial height keeps the
// old revision; its launch then fails and the fallback has to cope
func scRenameRevision(t *testing.T, w *World, variant int) {
	w.Block("p", 5, nil, map[string]any{"a": "CreateConsumer", "sender": "o1", "chain": "foo-1",
		"init": map[string]any{"initRev": 1, "spawn": w.now() + 60}})
	w.Block("p", 5, nil, map[string]any{"a": "OptIn", "v": "v1", "c": "c0"})
	newChain := []string{"foo-2", "foo-1", "bar-3", "foo"}[variant%4]
	w.Block("p", 5, nil, map[string]any{"a": "UpdateConsumer", "sender": "o1", "c": "c0", "newChain": newChain})
	for i := 0; i < 8 && !w.P.Halted; i++ {
		w.Block("p", 15, nil)
	}
	// a second consumer must be unaffected and launch normally
	if !w.P.Halted {
		w.quickConsumer("ok-1", 1, []string{"v1", "v2"}, nil)
	}
}

// two consumers name the same existing connection / chain id
func scSharedConnection(t *testing.T, w *World, variant int) {
	c0 := w.quickConsumer("shared-1", 1, []string{"v1", "v2"}, nil)
	w.StartConsumer(c0)
	if err := w.Connect(c0); err != nil {
		t.Logf("connect: %v", err)
		return
	}
	conn := w.Links[c0].PConn
	if variant%2 == 0 {
		if _, err := w.OpenChannel(c0, w.defaultChanCfg(c0)); err != nil {
			t.Logf("channel: %v", err)
		}
	}
	if variant >= 2 {
		// the first consumer is stopped (and keeps its bindings for an unbonding period) before the second one appears
		w.Block("p", 5, nil, map[string]any{"a": "RemoveConsumer", "sender": "o1", "c": c0})
	}
	// a second consumer with the same chain id on the existing connection
	w.Block("p", 5, nil, map[string]any{"a": "CreateConsumer", "sender": "o2", "chain": "shared-1",
		"init": map[string]any{"initRev": 1, "spawn": w.now() + 30, "conn": conn}})
	w.Block("p", 5, nil, map[string]any{"a": "OptIn", "v": "v3", "c": "c1"})
	for i := 0; i < 6; i++ {
		w.Block("p", 10, nil)
	}
	w.keepAlive(c0)
	// stop and remove one of them, then see what is left of the other
	w.Block("p", 5, nil, map[string]any{"a": "RemoveConsumer", "sender": "o2", "c": "c1"})
	for i := 0; i < 10; i++ {
		w.Block("p", 1800, nil)
		w.keepAlive(c0)
	}
	w.Block("p", 5, nil, map[string]any{"a": "Delegate", "v": "v1", "amt": 1000000})
	for i := 0; i < 4; i++ {
		w.Block("p", 5, nil)
	}
}

// the channel opens several epochs after launch, so the whole backlog leaves at once and arrives in varying batches
func scLateChannel(t *testing.T, w *World, variant int) {
	c0 := w.quickConsumer("late-1", 1, []string{"v1", "v2", "v3"}, nil)
	w.StartConsumer(c0)
	if variant%4 == 3 {
		// a validator (and a key) enters and leaves while the packets are still queued; in odd variants/2 the owner stops
		// the consumer before the channel exists: the queued packets must never leave
		w.Block("p", 5, nil, map[string]any{"a": "OptIn", "v": "v4", "c": c0, "key": "k4"})
		for i := 0; i < 3; i++ {
			w.Block("p", 5, nil)
		}
		w.Block("p", 5, nil, map[string]any{"a": "OptOut", "v": "v4", "c": c0}, map[string]any{"a": "AssignKey", "v": "v2", "c": c0, "key": "k2"})
		for i := 0; i < 3; i++ {
			w.Block("p", 5, nil)
		}
		w.Block("p", 5, nil, map[string]any{"a": "AssignKey", "v": "v2", "c": c0, "key": "k5"})
		for i := 0; i < 3; i++ {
			w.Block("p", 5, nil)
		}
		if (variant/4)%2 == 1 {
			w.Block("p", 5, nil, map[string]any{"a": "RemoveConsumer", "sender": "o1", "c": c0})
		}
	}
	for i := 0; i < 3+variant%3; i++ {
		w.Block("p", 5, nil, map[string]any{"a": "Delegate", "v": []string{"v1", "v2", "v3"}[i%3], "amt": 1000000})
		w.Block("p", 5, nil, map[string]any{"a": "AssignKey", "v": []string{"v1", "v2", "v3"}[i%3], "c": c0, "key": fmt.Sprintf("k%d", 1+i%3)})
		w.Block("p", 5, nil)
	}
	if err := w.Connect(c0); err != nil {
		return
	}
	w.OpenChannel(c0, w.defaultChanCfg(c0))
	for i := 0; i < 4; i++ {
		w.Block("p", 5, nil, map[string]any{"a": "Undelegate", "v": "v1", "amt": 500000})
	}
	switch variant % 3 {
	case 0:
		w.Block(c0, 5, nil, map[string]any{"a": "RelayTo", "n": 10, "batch": true})
	case 1:
		w.Block(c0, 5, nil, map[string]any{"a": "RelayTo", "n": 2})
		w.Block(c0, 5, nil, map[string]any{"a": "RelayTo", "n": 10})
	default:
		for i := 0; i < 6; i++ {
			w.Block(c0, 5, nil, map[string]any{"a": "RelayTo", "n": 1})
		}
	}
	w.Block(c0, 5, nil)
	w.Block("p", 5, nil, map[string]any{"a": "AckTo", "c": c0, "n": 10})
	w.Block("p", 5, nil)
}

// a consumer is stopped by its owner (or by a timeout) and removed after the unbonding period
func scStopAndRemove(t *testing.T, w *World, variant int) {
	c0 := w.quickConsumer("stop-1", 1, []string{"v1", "v2"}, map[string]any{"denoms": []string{"photon"}})
	c1 := w.quickConsumer("keep-1", 1, []string{"v2", "v3"}, nil)
	w.StartConsumer(c0)
	w.StartConsumer(c1)
	for _, c := range []string{c0, c1} {
		if err := w.Connect(c); err == nil {
			w.OpenChannel(c, w.defaultChanCfg(c))
		}
	}
	w.Block("p", 5, nil, map[string]any{"a": "AssignKey", "v": "v1", "c": c0, "key": "k1"},
		map[string]any{"a": "SetCommission", "v": "v2", "c": c0, "rate": "0.250000000000000000"})
	w.Block("p", 5, nil, map[string]any{"a": "UpdateConsumer", "sender": "o1", "c": c0,
		"infr": map[string]any{"dt": map[string]any{"frac": "0.010000000000000000", "jail": 1200, "tomb": false}}})
	w.Block("p", 5, nil, map[string]any{"a": "Delegate", "v": "v1", "amt": 1000000})
	w.Block("p", 5, nil)
	w.Block("p", 5, nil)
	if variant%2 == 0 {
		w.Block("p", 5, nil, map[string]any{"a": "RemoveConsumer", "sender": "o1", "c": c0})
	} else {
		// let the in-flight packets time out
		for i := 0; i < 8; i++ {
			w.Block("p", 1800, nil)
			w.Block(c0, 5, nil)
			w.keepAlive(c1)
			w.keepAlive(c0)
		}
		w.Block("p", 5, nil, map[string]any{"a": "TimeoutTo", "c": c0})
		w.Block("p", 5, nil, map[string]any{"a": "TimeoutTo", "c": c0})
	}
	for i := 0; i < 10; i++ {
		w.Block("p", 1800, nil, map[string]any{"a": "Delegate", "v": "v2", "amt": 100000})
		w.keepAlive(c1)
		if variant%4 < 2 {
			w.keepAlive(c0)
		}
	}
	w.Block("p", 5, nil)
	w.Block(c1, 5, nil, map[string]any{"a": "RelayTo", "n": 10})
	w.Block(c1, 5, nil)
}

// ---------------------------------------------------------------------------------------
// channel handshake attempts (C17)

type chanAttempt struct {
	Order   channeltypes.Order
	PPort   string // port on the provider
	CPort   string // port on the consumer
	Version string
	PConn   string // connection end on the provider
	CConn   string // connection end on the consumer
	Forge   bool   // write the INIT end directly on the consumer (a compromised consumer) instead of MsgChannelOpenInit
}

func (a chanAttempt) args(c string) map[string]any {
	return map[string]any{"c": c, "order": a.Order.String(), "pport": a.PPort, "cport": a.CPort, "version": a.Version, "conn": a.PConn, "cconn": a.CConn, "hops": 1}
}

// chanInit creates the INIT end on the consumer, honestly or forged; returns the consumer-side channel id.
func (w *World) chanInit(name string, a chanAttempt) (string, bool) {
	c := w.Chains[name]
	rel := w.acct("rel1")
	if !a.Forge {
		br := c.ProduceBlock([]TxSpec{{Kind: "ChanOpenInit", Args: a.args(name), Signer: rel,
			Msgs: []sdk.Msg{channeltypes.NewMsgChannelOpenInit(a.CPort, a.Version, a.Order, []string{a.CConn}, a.PPort, rel.Addr().String())}}}, 5, nil)
		if br.Err != "" || br.Txs[0].Code != 0 {
			return "", false
		}
		id, err := ibctesting.ParseChannelIDFromEvents(br.Txs[0].Events)
		return id, err == nil
	}
	ctx := c.GetContext()
	ck := c.App.GetIBCKeeper().ChannelKeeper
	id := ck.GenerateChannelIdentifier(ctx)
	ck.SetChannel(ctx, a.CPort, id, channeltypes.NewChannel(channeltypes.INIT, a.Order, channeltypes.NewCounterparty(a.PPort, ""), []string{a.CConn}, a.Version))
	w.rec.emit(c.Name, "Forge", map[string]any{"what": "chanInit", "chan": id}, nil, nil)
	c.ProduceBlock(nil, 5, nil)
	return id, true
}

func (w *World) chanTry(name string, a chanAttempt, cChan string) (string, bool) {
	c, p, lk := w.Chains[name], w.P, w.Links[name]
	rel := w.acct("rel1")
	c.ProduceBlock(nil, 5, nil)
	proof, ph := c.QueryProof(host.ChannelKey(a.CPort, cChan))
	pclient := lk.PClient
	if ce, ok := p.App.GetIBCKeeper().ConnectionKeeper.GetConnection(p.GetContext(), a.PConn); ok {
		pclient = ce.ClientId
	}
	msgs := w.withUpdate(p, pclient, c, rel, channeltypes.NewMsgChannelOpenTry(a.PPort, a.Version, a.Order, []string{a.PConn},
		a.CPort, cChan, a.Version, proof, ph, rel.Addr().String()))
	args := a.args(name)
	args["coreOk"] = true // the IBC-level inputs (proof, client, connection) of this attempt are valid
	br := p.ProduceBlock([]TxSpec{{Kind: "ChanOpenTry", Args: args, Signer: rel, Msgs: msgs}}, 5, nil)
	if br.Err != "" || br.Txs[0].Code != 0 {
		return "", false
	}
	id, err := ibctesting.ParseChannelIDFromEvents(br.Txs[0].Events)
	return id, err == nil
}

func (w *World) chanAck(name string, a chanAttempt, cChan, pChan string) bool {
	c, p, lk := w.Chains[name], w.P, w.Links[name]
	rel := w.acct("rel1")
	bch, _ := p.App.GetIBCKeeper().ChannelKeeper.GetChannel(p.GetContext(), a.PPort, pChan)
	p.ProduceBlock(nil, 5, nil)
	proof, ph := p.QueryProof(host.ChannelKey(a.PPort, pChan))
	msgs := w.withUpdate(c, lk.CClient, p, rel, channeltypes.NewMsgChannelOpenAck(a.CPort, cChan, pChan, bch.Version, proof, ph, rel.Addr().String()))
	args := a.args(name)
	args["chan"] = cChan
	br := c.ProduceBlock([]TxSpec{{Kind: "ChanOpenAck", Args: args, Signer: rel, Msgs: msgs}}, 5, nil)
	return br.Err == "" && br.Txs[0].Code == 0
}

func (w *World) chanConfirm(name string, a chanAttempt, cChan, pChan string) bool {
	c, p, lk := w.Chains[name], w.P, w.Links[name]
	rel := w.acct("rel1")
	c.ProduceBlock(nil, 5, nil)
	proof, ph := c.QueryProof(host.ChannelKey(a.CPort, cChan))
	msgs := w.withUpdate(p, lk.PClient, c, rel, channeltypes.NewMsgChannelOpenConfirm(a.PPort, pChan, proof, ph, rel.Addr().String()))
	args := a.args(name)
	args["chan"] = pChan
	br := p.ProduceBlock([]TxSpec{{Kind: "ChanOpenConfirm", Args: args, Signer: rel, Msgs: msgs}}, 5, nil)
	ok := br.Err == "" && br.Txs[0].Code == 0
	if ok && a.CPort == ccvtypes.ConsumerPortID {
		lk.CChan, lk.PChan = cChan, pChan
	}
	return ok
}

// secondConnection opens another connection between the chains on a fresh provider-side client of the consumer
// chain (a client that is NOT the one recorded for the consumer).
func (w *World) secondConnection(name string) (pConn, cConn string, err error) {
	c, p, lk := w.Chains[name], w.P, w.Links[name]
	rel := w.acct("rel1")
	// new tendermint client of the consumer chain on the provider
	ep := ibctesting.NewEndpoint(p.TestChain, ibctesting.NewTendermintConfig(), ibctesting.NewConnectionConfig(), ibctesting.NewChannelConfig())
	cep := ibctesting.NewEndpoint(c.TestChain, ibctesting.NewTendermintConfig(), ibctesting.NewConnectionConfig(), ibctesting.NewChannelConfig())
	ep.Counterparty, cep.Counterparty = cep, ep
	w.hsConsumer = name
	if err := ep.CreateClient(); err != nil {
		return "", "", err
	}
	newPClient := ep.ClientID
	r, _ := w.oneTx(c, "ConnOpenInit", rel, connectiontypes.NewMsgConnectionOpenInit(lk.CClient, newPClient, prefixOf(), nil, 0, rel.Addr().String()))
	if r.Code != 0 {
		return "", "", fmt.Errorf("init: %s", r.Log)
	}
	cConn, _ = ibctesting.ParseConnectionIDFromEvents(r.Events)
	c.ProduceBlock(nil, 5, nil)
	proof, ph := c.QueryProof(host.ConnectionKey(cConn))
	msgs := w.withUpdate(p, newPClient, c, rel, connectiontypes.NewMsgConnectionOpenTry(newPClient, cConn, lk.CClient, prefixOf(),
		[]*connectiontypes.Version{connVersion}, 0, proof, ph, rel.Addr().String()))
	r, _ = w.oneTx(p, "ConnOpenTry", rel, msgs...)
	if r.Code != 0 {
		return "", "", fmt.Errorf("try: %s", r.Log)
	}
	pConn, _ = ibctesting.ParseConnectionIDFromEvents(r.Events)
	p.ProduceBlock(nil, 5, nil)
	proof, ph = p.QueryProof(host.ConnectionKey(pConn))
	msgs = w.withUpdate(c, lk.CClient, p, rel, connectiontypes.NewMsgConnectionOpenAck(cConn, pConn, proof, ph, connVersion, rel.Addr().String()))
	r, _ = w.oneTx(c, "ConnOpenAck", rel, msgs...)
	if r.Code != 0 {
		return "", "", fmt.Errorf("ack: %s", r.Log)
	}
	c.ProduceBlock(nil, 5, nil)
	proof, ph = c.QueryProof(host.ConnectionKey(cConn))
	msgs = w.withUpdate(p, newPClient, c, rel, connectiontypes.NewMsgConnectionOpenConfirm(pConn, proof, ph, rel.Addr().String()))
	r, _ = w.oneTx(p, "ConnOpenConfirm", rel, msgs...)
	if r.Code != 0 {
		return "", "", fmt.Errorf("confirm: %s", r.Log)
	}
	return pConn, cConn, nil
}

func scHandshake(t *testing.T, w *World, variant int) {
	c0 := w.quickConsumer("hs-1", 1, []string{"v1", "v2"}, nil)
	c1 := w.quickConsumer("hs2-1", 1, []string{"v2", "v3"}, nil)
	w.StartConsumer(c0)
	w.StartConsumer(c1)
	if err := w.Connect(c0); err != nil {
		t.Logf("connect: %v", err)
		return
	}
	w.Connect(c1)
	lk := w.Links[c0]
	good := chanAttempt{Order: channeltypes.ORDERED, PPort: ccvtypes.ProviderPortID, CPort: ccvtypes.ConsumerPortID, Version: ccvtypes.Version, PConn: lk.PConn, CConn: lk.CConn}
	rel := w.acct("rel1")
	// the provider may not initiate or acknowledge
	w.hsConsumer = c0
	w.P.ProduceBlock([]TxSpec{{Kind: "ChanOpenInit", Args: good.args(c0), Signer: rel,
		Msgs: []sdk.Msg{channeltypes.NewMsgChannelOpenInit(good.PPort, good.Version, good.Order, []string{good.PConn}, good.CPort, rel.Addr().String())}}}, 5, nil)
	// deviations, each forged on the consumer side so that the provider's own checks are what rejects them
	devs := []chanAttempt{}
	d := good
	d.Forge = true
	d.Order = channeltypes.UNORDERED
	devs = append(devs, d)
	d = good
	d.Forge = true
	d.Version = "2"
	devs = append(devs, d)
	d = good
	d.Forge = true
	d.CPort = "transfer"
	devs = append(devs, d)
	// a consumer running other software may leave the version empty or blank: that is not the supported version either
	for _, ver := range []string{"", " "} {
		d = good
		d.Forge = true
		d.Version = ver
		devs = append(devs, d)
	}
	if pc, cc, err := w.secondConnection(c0); err == nil {
		d = good
		d.PConn, d.CConn = pc, cc
		devs = append(devs, d)
	} else {
		t.Logf("second connection: %v", err)
	}
	// a channel for c0 attempted over c1's connection ends on the provider side
	for i, a := range devs {
		if (variant>>uint(i))&1 == 1 {
			continue // vary which deviations are tried before the good handshake
		}
		if id, ok := w.chanInit(c0, a); ok {
			w.chanTry(c0, a, id)
		}
	}
	// two honest attempts race: both may pass Try (and Ack); only one may be confirmed
	id1, ok1 := w.chanInit(c0, good)
	id2, ok2 := w.chanInit(c0, good)
	var p1, p2 string
	if ok1 {
		p1, ok1 = w.chanTry(c0, good, id1)
	}
	if ok2 {
		p2, ok2 = w.chanTry(c0, good, id2)
	}
	if ok1 {
		ok1 = w.chanAck(c0, good, id1, p1)
	}
	if ok2 {
		ok2 = w.chanAck(c0, good, id2, p2)
	}
	if variant%2 == 0 {
		if ok1 {
			w.chanConfirm(c0, good, id1, p1)
		}
		if ok2 {
			w.chanConfirm(c0, good, id2, p2)
		}
	} else {
		if ok2 {
			w.chanConfirm(c0, good, id2, p2)
		}
		if ok1 {
			w.chanConfirm(c0, good, id1, p1)
		}
	}
	// afterwards every further attempt is refused, and packets flow on the confirmed channel only
	for _, a := range append(devs, good) {
		a.Forge = true
		if id, ok := w.chanInit(c0, a); ok {
			w.chanTry(c0, a, id)
		}
	}
	w.OpenChannel(c1, w.defaultChanCfg(c1))
	w.Block("p", 5, nil, map[string]any{"a": "Delegate", "v": "v2", "amt": 1000000})
	for i := 0; i < 3; i++ {
		w.Block("p", 5, nil)
	}
	w.Block(c0, 5, nil, map[string]any{"a": "RelayTo", "n": 5})
	w.Block(c1, 5, nil, map[string]any{"a": "RelayTo", "n": 5})
	w.Block(c0, 5, nil)
	w.Block(c1, 5, nil)
}

// ---------------------------------------------------------------------------------------
// fault enumeration (C19): a failure injected at an external-module call inside launch / deletion / sending,
// in every position of a three-consumer block

var failpoints = []string{
	"Launch:ComputeConsumerNextValSet", "Launch:SetConsumerGenesis", "Launch:CreateConsumerClient",
	"Delete:AfterGenesis", "Delete:AfterCleanup", "SendVSC:SendIBCPacket",
}

func scFaults(t *testing.T, w *World, variant int) {
	fp := failpoints[variant%len(failpoints)]
	pos := (variant / len(failpoints)) % 3
	// three consumers due in the same block
	spawn := w.now() + 60
	var txs []map[string]any
	for i := 0; i < 3; i++ {
		txs = append(txs, map[string]any{"a": "CreateConsumer", "sender": []string{"o1", "o2", "u1"}[i], "chain": fmt.Sprintf("f%d-1", i),
			"init": map[string]any{"initRev": 1, "spawn": spawn}})
	}
	w.Block("p", 5, nil, txs...)
	w.Block("p", 5, nil, map[string]any{"a": "OptIn", "v": "v1", "c": "c0"}, map[string]any{"a": "OptIn", "v": "v2", "c": "c1"}, map[string]any{"a": "OptIn", "v": "v3", "c": "c2", "key": "k2"})
	w.Block("p", 5, nil, map[string]any{"a": "OptIn", "v": "v2", "c": "c0"}, map[string]any{"a": "OptIn", "v": "v3", "c": "c1"}, map[string]any{"a": "OptIn", "v": "v1", "c": "c2"})
	arm := func(kind string) {
		if len(fp) >= len(kind) && fp[:len(kind)] == kind {
			w.failAt[fp] = pos
			w.rec.emit("p", "Arm", map[string]any{"point": fp, "skip": pos}, nil, nil)
		}
	}
	arm("Launch")
	for i := 0; i < 8; i++ {
		w.Block("p", 15, nil)
	}
	delete(w.failAt, fp)
	names := []string{}
	for _, c := range []string{"c0", "c1", "c2"} {
		if phaseNames[w.P.PApp.ProviderKeeper.GetConsumerPhase(w.P.GetContext(), consIDOf(c))] == "launched" {
			names = append(names, c)
		}
	}
	for _, c := range names {
		w.StartConsumer(c)
		if err := w.Connect(c); err == nil {
			w.OpenChannel(c, w.defaultChanCfg(c))
		}
	}
	// a validator-set change is queued for every consumer; sending fails for one of them
	arm("SendVSC")
	w.Block("p", 5, nil, map[string]any{"a": "Delegate", "v": "v1", "amt": 1000000}, map[string]any{"a": "Delegate", "v": "v3", "amt": 2000000})
	for i := 0; i < 4; i++ {
		w.Block("p", 5, nil)
	}
	delete(w.failAt, fp)
	for _, c := range names {
		w.Block(c, 5, nil, map[string]any{"a": "RelayTo", "n": 5})
		w.Block(c, 5, nil)
	}
	// all owners remove their consumers in one block; the deletions fall due together
	var rm []map[string]any
	for i, c := range []string{"c0", "c1", "c2"} {
		rm = append(rm, map[string]any{"a": "RemoveConsumer", "sender": []string{"o1", "o2", "u1"}[i], "c": c})
	}
	w.Block("p", 5, nil, rm...)
	for i := 0; i < 6; i++ {
		w.Block("p", 1800, nil)
		for _, c := range names {
			w.keepAlive(c)
		}
	}
	arm("Delete")
	for i := 0; i < 4; i++ {
		w.Block("p", 1800, nil)
	}
	delete(w.failAt, fp)
	w.Block("p", 5, nil)
}

// ---------------------------------------------------------------------------------------
// rewards (C16): fees on consumers, split, transmission, crediting, allocation on the provider

func scRewards(t *testing.T, w *World, variant int) {
	frac := []string{"0.75", "0.25", "0.00", "0.50", "0.75", "0.25", "0.10", "1.00"}[variant%8]
	bpdt := int64(1 + variant%3)
	mk := func(chain string, vals []string) string {
		return w.quickConsumer(chain, 1, vals, map[string]any{"init": map[string]any{"initRev": 1, "spawn": w.now() + 30, "frac": frac, "bpdt": bpdt}})
	}
	c0 := mk("rw-1", []string{"v1", "v2"})
	c1 := mk("rx-1", []string{"v2", "v3"})
	for _, c := range []string{c0, c1} {
		w.StartConsumer(c)
		if err := w.Connect(c); err != nil {
			t.Logf("connect %v", err)
			return
		}
		if _, err := w.OpenChannel(c, w.defaultChanCfg(c)); err != nil {
			t.Logf("channel %v", err)
			return
		}
		if err := w.CompleteTransferChannel(c); err != nil {
			t.Logf("transfer channel %s: %v", c, err)
		}
		w.ConsumerGovExec(c, []string{"stake", "photon"}[:1+variant%2], nil)
	}
	// denoms: the voucher of c0's stake is registered by governance, c1's stake voucher is allow-listed by its owner
	d0 := w.VoucherDenom(c0, "stake")
	d1 := w.VoucherDenom(c1, "stake")
	w.GovExec(map[string]any{"a": "ChangeRewardDenoms", "add": []string{d0}})
	// consumers that also send their second fee denom (odd variants) get its voucher allow-listed as well: one consumer
	// is then paid in two denoms in the same block
	var extra0, extra1 []string
	if variant%2 == 1 {
		extra0 = []string{w.VoucherDenom(c0, "photon")}
		extra1 = []string{w.VoucherDenom(c1, "photon")}
	}
	if variant%4 == 1 {
		// the EARLIER consumer allow-lists the later consumer's denom; the later consumer itself does not:
		// its credit in that denom must never be paid out
		w.Block("p", 5, nil, map[string]any{"a": "UpdateConsumer", "sender": "o1", "c": c0, "denoms": append([]string{d1}, extra0...)})
	} else {
		w.Block("p", 5, nil, map[string]any{"a": "UpdateConsumer", "sender": "o1", "c": c1, "denoms": append([]string{d1}, extra1...)})
		if len(extra0) > 0 {
			w.Block("p", 5, nil, map[string]any{"a": "UpdateConsumer", "sender": "o1", "c": c0, "denoms": extra0})
		}
	}
	w.Block("p", 5, nil, map[string]any{"a": "SetCommission", "v": "v2", "c": c0, "rate": "0.500000000000000000"})
	// a per-consumer rate of exactly zero is a rate, too (the validators' provider commission is 10 %)
	w.Block("p", 5, nil, map[string]any{"a": "SetCommission", "v": "v1", "c": c0, "rate": "0.000000000000000000"},
		map[string]any{"a": "SetCommission", "v": "v3", "c": c1, "rate": []string{"0.000000000000000000", "1.000000000000000000", "0.100000000000000000"}[variant%3]})
	// both consumers need their first validator-set packet before they accept ordinary transactions
	w.Block("p", 5, nil, map[string]any{"a": "Delegate", "v": "v2", "amt": 1000000})
	for i := 0; i < 3; i++ {
		w.Block("p", 5, nil)
	}
	for _, c := range []string{c0, c1} {
		w.Block(c, 5, nil, map[string]any{"a": "RelayTo", "n": 3})
	}
	// rewards in a denom that is native to the provider: somebody moves provider stake to the consumer, the consumer accepts
	// its voucher as a reward denom (ProviderRewardDenoms) and fees paid in it flow back as the NATIVE denom
	provNative := variant%4 == 2
	cNative := ""
	if provNative {
		w.GovExec(map[string]any{"a": "ChangeRewardDenoms", "add": []string{BondDenom}})
		w.Block("p", 5, nil, map[string]any{"a": "Transfer", "c": c0, "denom": BondDenom, "amt": 500000})
		w.Block(c0, 5, nil, map[string]any{"a": "UpdateClient"})
		w.Block(c0, 5, nil, map[string]any{"a": "RelayTo", "n": 3, "port": "transfer"})
		w.Block("p", 5, nil, map[string]any{"a": "UpdateClient", "c": c0})
		w.Block("p", 5, nil, map[string]any{"a": "AckTo", "c": c0, "n": 3, "port": "transfer"})
		w.ConsumerGovExec(c0, []string{"stake", "photon"}[:1+variant%2], []string{BondDenom})
		cNative = ccvtypes.ParseDenomTrace("transfer/" + w.Links[c0].CXfer + "/" + BondDenom).IBCDenom()
	}
	allocFPs := []string{"Allocate:GetCommunityTax", "Allocate:SendCoinsFromModuleToModule", "Allocate:AllocateTokensToConsumerValidators", "Allocate:FundCommunityPool"}
	amts := []int64{1, 3, 4, 7, 10, 101, 999, 1000}
	for round := 0; round < 6; round++ {
		for ci, c := range []string{c0, c1} {
			var txs []map[string]any
			if !(variant%2 == 1 && round%3 == 1) { // some rounds collect fees in the second denom only
				txs = append(txs, map[string]any{"a": "Fees", "denom": "stake", "amt": amts[(round*2+ci+variant)%len(amts)]})
			}
			if provNative && ci == 0 {
				txs = append(txs, map[string]any{"a": "Fees", "denom": cNative, "amt": amts[(round+3)%len(amts)]})
			}
			if (round+variant)%2 == 0 || (variant%2 == 1 && round%3 == 1) {
				txs = append(txs, map[string]any{"a": "Fees", "denom": "photon", "amt": amts[(round+ci)%len(amts)]})
			}
			txs = append(txs, map[string]any{"a": "RelayTo", "n": 3})
			w.Block(c, 5, nil, txs...)
			w.Block(c, 5, nil)
		}
		// the validator set of c0 changes between crediting and payout
		if round == 2 {
			w.Block("p", 5, nil, map[string]any{"a": "OptIn", "v": "v3", "c": c0}, map[string]any{"a": "OptOut", "v": "v1", "c": c0})
		}
		w.Block("p", 5, nil, map[string]any{"a": "RelayTo", "c": c0, "n": 3, "port": "transfer"}, map[string]any{"a": "RelayTo", "c": c1, "n": 3, "port": "transfer"})
		if variant >= 12 && round >= 1 && round <= 3 {
			// an external call fails inside one (consumer, denom) allocation of the next block
			fp := allocFPs[(variant/2)%len(allocFPs)]
			// (skip 0: the first allocation of the block fails, i.e. the first denom of the first consumer, and later
			//  denoms of the same consumer succeed; skip 1: the second one)
			skip := (variant/4 + variant) % 2
			w.failAt[fp] = skip
			w.rec.emit("p", "Arm", map[string]any{"point": fp, "skip": skip}, nil, nil)
		}
		w.Block("p", 5, nil)
		for _, fp := range allocFPs {
			delete(w.failAt, fp)
		}
		w.Block("p", 5, nil, map[string]any{"a": "Delegate", "v": "v1", "amt": 1000000})
		w.Block(c0, 5, nil, map[string]any{"a": "AckTo", "n": 3, "port": "transfer"})
		w.Block(c1, 5, nil, map[string]any{"a": "AckTo", "n": 3, "port": "transfer"})
	}
	w.Block("p", 5, nil)
}

// ---------------------------------------------------------------------------------------
// targeted scenarios: situations that need a specific combination to arise

// several consumers of different kinds are recomputed in the same epoch block (the provider fetches the bonded and
// active validators once and reuses them for every consumer)
func scMixedConsumers(t *testing.T, w *World, variant int) {
	// c0: Top-N (governance-owned) where a validator below the threshold has NOT opted in and a smaller one has
	spawn0 := w.now() + 60
	if variant%2 == 0 {
		spawn0 = w.now() + 35 // the Top-N consumer launches a few blocks before the others; odd variants: all in one block
	}
	w.Block("p", 5, nil, map[string]any{"a": "CreateConsumer", "sender": "o1", "chain": "mixa-1", "init": map[string]any{"initRev": 1, "spawn": spawn0}})
	w.Block("p", 5, nil, map[string]any{"a": "UpdateConsumer", "sender": "o1", "c": "c0", "newOwner": "gov"})
	topN := []int{50, 51, 60, 67}[variant%4]
	sh := map[string]any{"topN": topN}
	if variant%2 == 1 {
		sh["allowInactive"] = true
	}
	w.GovExec(map[string]any{"a": "UpdateConsumer", "c": "c0", "shaping": sh})
	// c1: plain opt-in, everybody opts in; c2: opt-in with a cap and a priority list
	w.Block("p", 5, nil, map[string]any{"a": "CreateConsumer", "sender": "o1", "chain": "mixb-1", "init": map[string]any{"initRev": 1, "spawn": w.now() + 55}},
		map[string]any{"a": "CreateConsumer", "sender": "o2", "chain": "mixc-1", "init": map[string]any{"initRev": 1, "spawn": w.now() + 55},
			"shaping": map[string]any{"valCap": 2 + variant%2, "prioL": []string{"v4"}, "powCap": []int{0, 34, 50}[variant%3]}})
	n := w.Cfg.NumVals
	var txs []map[string]any
	for i := 1; i <= n; i++ {
		v := fmt.Sprintf("v%d", i)
		txs = append(txs, map[string]any{"a": "OptIn", "v": v, "c": "c1"})
	}
	w.Block("p", 5, nil, txs...)
	txs = nil
	for i := 1; i <= n; i++ {
		txs = append(txs, map[string]any{"a": "OptIn", "v": fmt.Sprintf("v%d", i), "c": "c2"})
	}
	w.Block("p", 5, nil, txs...)
	// a consumer that allows inactive validators and has only the smallest validator opted in: when the provider's consensus
	// set is smaller than the bonded set that validator is inactive and the launch has to fall back
	w.Block("p", 5, nil, map[string]any{"a": "CreateConsumer", "sender": "o2", "chain": "mixd-1", "init": map[string]any{"initRev": 1, "spawn": w.now() + 40},
		"shaping": map[string]any{"allowInactive": true}})
	w.Block("p", 5, nil, map[string]any{"a": "OptIn", "v": fmt.Sprintf("v%d", n), "c": "c3"})
	// a second Top-N consumer with a higher N, recomputed after the first one in every epoch
	w.Block("p", 5, nil, map[string]any{"a": "CreateConsumer", "sender": "o2", "chain": "mixe-1", "init": map[string]any{"initRev": 1, "spawn": w.now() + 45}})
	w.Block("p", 5, nil, map[string]any{"a": "UpdateConsumer", "sender": "o2", "c": "c4", "newOwner": "gov"})
	w.GovExec(map[string]any{"a": "UpdateConsumer", "c": "c4", "shaping": map[string]any{"topN": []int{100, 95, 90}[variant%3]}})
	// on the Top-N consumer only the smallest validators opt in voluntarily
	w.Block("p", 5, nil, map[string]any{"a": "OptIn", "v": fmt.Sprintf("v%d", n), "c": "c0"}, map[string]any{"a": "OptIn", "v": fmt.Sprintf("v%d", n-1), "c": "c0", "key": "k1"})
	for i := 0; i < 8; i++ {
		w.Block("p", 10, nil)
	}
	// power changes over a few epochs, including moves that keep the total constant
	w.Block("p", 5, nil, map[string]any{"a": "Redelegate", "v": "v1", "v2": "v2", "amt": 1000000})
	for i := 0; i < 3; i++ {
		w.Block("p", 5, nil)
	}
	w.Block("p", 5, nil, map[string]any{"a": "Delegate", "v": fmt.Sprintf("v%d", n-2), "amt": 1000000})
	for i := 0; i < 3; i++ {
		w.Block("p", 5, nil)
	}
	w.Block("p", 5, nil, map[string]any{"a": "OptOut", "v": fmt.Sprintf("v%d", n), "c": "c0"}, map[string]any{"a": "OptOut", "v": "v1", "c": "c0"})
	for i := 0; i < 3; i++ {
		w.Block("p", 5, nil)
	}
	// lists replaced by lists of the same length with the same first entry, by shorter and by longer ones
	w.Block("p", 5, nil, map[string]any{"a": "UpdateConsumer", "sender": "o1", "c": "c1", "shaping": map[string]any{"denyL": []string{"v1", "v2"}}})
	for i := 0; i < 3; i++ {
		w.Block("p", 5, nil)
	}
	w.Block("p", 5, nil, map[string]any{"a": "UpdateConsumer", "sender": "o1", "c": "c1", "shaping": map[string]any{"denyL": []string{"v1", "v3"}}})
	for i := 0; i < 3; i++ {
		w.Block("p", 5, nil)
	}
	w.Block("p", 5, nil, map[string]any{"a": "UpdateConsumer", "sender": "o1", "c": "c1", "shaping": map[string]any{"allowL": []string{"v2", "v3", "v4"}, "prioL": []string{"v4", "v2"}}})
	for i := 0; i < 3; i++ {
		w.Block("p", 5, nil)
	}
	w.Block("p", 5, nil, map[string]any{"a": "UpdateConsumer", "sender": "o1", "c": "c1", "shaping": map[string]any{"allowL": []string{"v2", "v3", "v5"}, "prioL": []string{"v4", "v3"}}})
	for i := 0; i < 3; i++ {
		w.Block("p", 5, nil)
	}
	w.Block("p", 5, nil, map[string]any{"a": "UpdateConsumer", "sender": "o1", "c": "c1", "shaping": map[string]any{"allowL": []string{"v2"}}})
	for i := 0; i < 3; i++ {
		w.Block("p", 5, nil)
	}
}

// key rotation on a launched consumer (K1 -> K2 -> K1 -> K3), keys on not-yet-launched consumers, validator creation
// with keys that are known somewhere, time advancing over the pruning deadlines
func scKeyRotation(t *testing.T, w *World, variant int) {
	c0 := w.quickConsumer("keys-1", 1, []string{"v1", "v2", "v3"}, nil)
	w.Block("p", 5, nil, map[string]any{"a": "CreateConsumer", "sender": "o2", "chain": "keysreg-1"})
	c1 := fmt.Sprintf("c%d", w.nextConsumerID()-1) // registered only
	w.Block("p", 5, nil, map[string]any{"a": "CreateConsumer", "sender": "o2", "chain": "keysinit-1", "init": map[string]any{"initRev": 1, "spawn": w.now() + 100000}})
	c2 := fmt.Sprintf("c%d", w.nextConsumerID()-1) // initialized, far in the future
	w.Block("p", 5, nil, map[string]any{"a": "AssignKey", "v": "v1", "c": c0, "key": "k1"})
	w.Block("p", 600, nil, map[string]any{"a": "AssignKey", "v": "v1", "c": c0, "key": "k2"})
	w.Block("p", 600, nil, map[string]any{"a": "AssignKey", "v": "v1", "c": c0, "key": "k1"}) // a key still queued for pruning
	w.Block("p", 600, nil, map[string]any{"a": "AssignKey", "v": "v1", "c": c0, "key": "k3"})
	w.Block("p", 5, nil, map[string]any{"a": "AssignKey", "v": "v2", "c": c0, "key": "k1"}) // somebody else's old key
	w.Block("p", 5, nil, map[string]any{"a": "AssignKey", "v": "v1", "c": c0, "key": "pk1"}) // back to the provider key
	w.Block("p", 5, nil, map[string]any{"a": "AssignKey", "v": "v2", "c": c0, "key": "pk3"}) // another validator's provider key
	// keys on consumers that have no client yet
	w.Block("p", 5, nil, map[string]any{"a": "AssignKey", "v": "v2", "c": c1, "key": "k4"}, map[string]any{"a": "OptIn", "v": "v3", "c": c2, "key": "k5"})
	w.Block("p", 5, nil, map[string]any{"a": "AssignKey", "v": "v2", "c": c1, "key": "k6"}) // replaced before launch: k4 is free again
	// new provider validators: with a key known on a registered / initialized / launched consumer, a freed key, a fresh key
	nv := w.Cfg.NumVals
	for i, key := range []string{"k6", "k5", "k3", "k4", fmt.Sprintf("pk%d", nv+5)} {
		if (variant>>uint(i))&1 == 1 && i < 3 {
			continue
		}
		w.Block("p", 5, nil, map[string]any{"a": "CreateValidator", "v": fmt.Sprintf("v%d", nv+1+i), "key": key, "amt": 1500000})
	}
	// a validator that is jailed (provider-side downtime) replaces its key: the old key stays attributable all the same
	if variant%2 == 1 {
		w.Block("p", 5, nil, map[string]any{"a": "AssignKey", "v": "v3", "c": c0, "key": "k8"})
		for i := 0; i < 5; i++ {
			w.Block("p", 5, []string{"pk3"})
		}
		w.Block("p", 5, nil, map[string]any{"a": "AssignKey", "v": "v3", "c": c0, "key": "k7"})
		w.Block("p", 5, nil, map[string]any{"a": "AssignKey", "v": "v2", "c": c0, "key": "k8"}) // somebody else wants the old key at once
	}
	// time passes over the pruning deadlines in steps around them
	for i := 0; i < 24; i++ {
		w.Block("p", []int64{1800, 1795, 5, 5}[i%4], nil)
		if i%3 == 0 {
			w.Block("p", 5, nil, map[string]any{"a": "AssignKey", "v": "v3", "c": c0, "key": []string{"k1", "k2", "k7", "k8"}[(i/3)%4]})
		}
	}
}

// lifecycle corner cases: spawn times in the past / now with a second message in the same block, ownership and Top-N
// moves by governance, infraction-parameter requests that cancel or collide, two consumers sharing schedule times
func scLifecycleCorners(t *testing.T, w *World, variant int) {
	now := w.now()
	spawn := []int64{now - 3, now + 5, now + 10}[variant%3] // past (relative to the block it is created in), the block's own time, soon
	if spawn < 1 {
		spawn = 1
	}
	// create and update in the SAME block
	w.Block("p", 5, nil,
		map[string]any{"a": "CreateConsumer", "sender": "o1", "chain": "lc-1", "init": map[string]any{"initRev": 1, "spawn": spawn}},
		map[string]any{"a": "OptIn", "v": "v1", "c": "c0"},
		map[string]any{"a": "UpdateConsumer", "sender": "o1", "c": "c0", "meta": true})
	w.Block("p", 5, nil, map[string]any{"a": "CreateConsumer", "sender": "o1", "chain": "ld-1", "init": map[string]any{"initRev": 1, "spawn": spawn}},
		map[string]any{"a": "OptIn", "v": "v2", "c": "c1"},
		map[string]any{"a": "UpdateConsumer", "sender": "o1", "c": "c1", "init": map[string]any{"initRev": 1, "spawn": w.now() + 600}})
	for i := 0; i < 4; i++ {
		w.Block("p", 5, nil)
	}
	// two more consumers, launched, for the shared schedules
	c2 := w.quickConsumer("le-1", 1, []string{"v1", "v2"}, nil)
	c3 := w.quickConsumer("lf-1", 1, []string{"v2", "v3"}, nil)
	infA := map[string]any{"dt": map[string]any{"frac": "0.010000000000000000", "jail": 1200, "tomb": false}}
	infB := map[string]any{"ds": map[string]any{"frac": "0.100000000000000000", "jail": 86400, "tomb": true}}
	cur := map[string]any{"dt": map[string]any{"frac": "0.000000000000000000", "jail": 600, "tomb": false}}
	// both request a change in the same block (same due time); then one of them requests again / cancels
	w.Block("p", 5, nil, map[string]any{"a": "UpdateConsumer", "sender": "o1", "c": c2, "infr": infA}, map[string]any{"a": "UpdateConsumer", "sender": "o1", "c": c3, "infr": infB})
	switch variant % 3 {
	case 0:
		w.Block("p", 5, nil, map[string]any{"a": "UpdateConsumer", "sender": "o1", "c": c2, "infr": cur}) // equals the values in force: cancels
	case 1:
		w.Block("p", 5, nil, map[string]any{"a": "UpdateConsumer", "sender": "o1", "c": c2, "infr": infB}) // replaces
	default:
		w.Block("p", 5, nil, map[string]any{"a": "RemoveConsumer", "sender": "o1", "c": c2})
	}
	// governance: take a consumer, make it Top-N, try to hand it back with and without resetting Top-N
	w.Block("p", 5, nil, map[string]any{"a": "UpdateConsumer", "sender": "o1", "c": c3, "newOwner": "gov"})
	w.GovExec(map[string]any{"a": "UpdateConsumer", "c": c3, "shaping": map[string]any{"topN": 60}})
	w.GovExec(map[string]any{"a": "UpdateConsumer", "c": c3, "newOwner": "o2"})
	w.GovExec(map[string]any{"a": "UpdateConsumer", "c": c3, "newOwner": "o2", "shaping": map[string]any{"topN": 55}})
	if variant%2 == 0 {
		w.GovExec(map[string]any{"a": "UpdateConsumer", "c": c3, "newOwner": "o2", "shaping": map[string]any{"topN": 0}})
		w.Block("p", 5, nil, map[string]any{"a": "UpdateConsumer", "sender": "o2", "c": c3, "shaping": map[string]any{"topN": 70}})
	}
	// a user message that transfers to governance and sets Top-N at once
	w.Block("p", 5, nil, map[string]any{"a": "UpdateConsumer", "sender": "o1", "c": "c1", "newOwner": "gov", "shaping": map[string]any{"topN": 80}})
	// run past the due times
	for i := 0; i < 10; i++ {
		w.Block("p", 1800, nil)
	}
	w.Block("p", 5, nil)
}

// ---------------------------------------------------------------------------------------
// bulk: more entries due in one block than a time queue hands out per block (200), for all three queues
// (launch, infraction-parameter changes, removal)
func scBulk(t *testing.T, w *World, variant int) {
	n := 206 + variant%3 // three or four launches fail, one request is cancelled: more than 200 entries stay in every queue
	owners := []string{"o1", "o2", "u1"}
	t1 := w.now() + 900
	twoStamps := variant%2 == 1
	noOptIn := func(i int) bool { return i%67 == 5 } // these launches fail: nobody opted in
	for i := 0; i < n; {
		var txs []map[string]any
		for j := 0; j < 45 && i < n; j, i = j+1, i+1 {
			spawn := t1
			if twoStamps && i >= 150 {
				spawn = t1 + 1 // a second timestamp, consumed partially in the launch block
			}
			txs = append(txs, map[string]any{"a": "CreateConsumer", "sender": owners[i%3], "chain": fmt.Sprintf("bulk%d-1", i), "init": map[string]any{"initRev": 1, "spawn": spawn}})
			if !noOptIn(i) {
				txs = append(txs, map[string]any{"a": "OptIn", "v": []string{"v1", "v2"}[i%2], "c": fmt.Sprintf("c%d", i)})
			}
		}
		w.Block("p", 5, nil, txs...)
	}
	// everything becomes due in one block; the rest follows in the next ones
	w.Block("p", t1+2-w.now(), nil)
	for i := 0; i < 3; i++ {
		w.Block("p", 5, nil)
	}
	// per-consumer validator operations on consumers whose ids are string prefixes of each other ("1", "10", "100", "2", "20")
	var ktx []map[string]any
	for i, c := range []string{"c1", "c10", "c100", "c2", "c20", "c200"} {
		ktx = append(ktx, map[string]any{"a": "AssignKey", "v": "v2", "c": c, "key": fmt.Sprintf("k%d", 1+i)})
	}
	ktx = append(ktx, map[string]any{"a": "OptIn", "v": "v3", "c": "c10"}, map[string]any{"a": "SetCommission", "v": "v3", "c": "c10", "rate": "0.300000000000000000"},
		map[string]any{"a": "OptOut", "v": "v3", "c": "c1"}, map[string]any{"a": "UpdateConsumer", "sender": "o2", "c": "c1", "shaping": map[string]any{"denyL": []string{"v4"}, "valCap": 3}})
	w.Block("p", 5, nil, ktx...)
	w.Block("p", 5, nil, map[string]any{"a": "AssignKey", "v": "v2", "c": "c1", "key": "k7"}, map[string]any{"a": "OptOut", "v": "v2", "c": "c100"})
	for i := 0; i < 4; i++ {
		w.Block("p", 5, nil)
	}
	// infraction-parameter changes for every launched consumer: one request block (one due time) or three
	inf := map[string]any{"dt": map[string]any{"frac": "0.010000000000000000", "jail": 1200, "tomb": false}}
	per := n
	if variant%3 == 2 {
		per = 70
	}
	for i := 0; i < n; {
		var txs []map[string]any
		for j := 0; j < per && i < n; j, i = j+1, i+1 {
			txs = append(txs, map[string]any{"a": "UpdateConsumer", "sender": owners[i%3], "c": fmt.Sprintf("c%d", i), "infr": inf})
		}
		w.Block("p", 5, nil, txs...)
	}
	tReq := w.now()
	u := w.Cfg.Unbonding
	// a few change their mind (replace / cancel), a slice of the consumers is stopped before the change is due
	w.Block("p", 5, nil,
		map[string]any{"a": "UpdateConsumer", "sender": owners[0], "c": "c0", "infr": map[string]any{"dt": map[string]any{"frac": "0.000000000000000000", "jail": 600, "tomb": false}}},
		map[string]any{"a": "UpdateConsumer", "sender": owners[1], "c": "c1", "infr": map[string]any{"dt": map[string]any{"frac": "0.020000000000000000", "jail": 1300, "tomb": false}}})
	w.Block("p", u/2, nil)
	var stops []map[string]any
	for i := 0; i < n; i++ {
		if i%2 == 0 || variant%2 == 0 {
			stops = append(stops, map[string]any{"a": "RemoveConsumer", "sender": owners[i%3], "c": fmt.Sprintf("c%d", i)})
		}
	}
	w.Block("p", 5, nil, stops...)
	// past the due time of the parameter changes: 200 in one block, the rest in the next
	w.Block("p", tReq+u+20-w.now(), nil)
	for i := 0; i < 3; i++ {
		w.Block("p", 5, nil)
	}
	// past the removal time
	w.Block("p", u/2, nil)
	for i := 0; i < 4; i++ {
		w.Block("p", 5, nil)
	}
}

func init() {
	scenarios["bulk"] = func(t *testing.T, seed int64) *World {
		cfg := DefaultConfig()
		cfg.Unbonding = 4 * 3600
		cfg.ConsUnbonding = 3 * 3600
		cfg.BlocksPerEpoch = 10 // (every epoch block emits two events per launched consumer: keep them few)
		w := NewWorld(t, cfg)
		w.rec.Start()
		w.rec.emit("p", "Scenario", map[string]any{"name": "bulk", "variant": int(seed)}, nil, nil)
		w.Block("p", 5, nil)
		scBulk(t, w, int(seed))
		return w
	}
}

// authority corners: every validator message signed by somebody else's operator on a launched consumer where it WOULD
// succeed if accepted; owner messages by outsiders; authority-only messages by users; parameter values beyond 32 bits
func scAuthority(t *testing.T, w *World, variant int) {
	c0 := w.quickConsumer("auth-1", 1, []string{"v1", "v2", "v3"}, nil)
	w.Block("p", 5, nil, map[string]any{"a": "AssignKey", "v": "v2", "c": c0, "key": "k2"})
	other := []string{"op3", "op1", "op4", "o1"}[variant%4]
	// each of these names validator v2 but is signed by `other`
	w.Block("p", 5, nil, map[string]any{"a": "OptOut", "v": "v2", "c": c0, "signer": other})
	w.Block("p", 5, nil, map[string]any{"a": "AssignKey", "v": "v2", "c": c0, "key": "k3", "signer": other})
	w.Block("p", 5, nil, map[string]any{"a": "SetCommission", "v": "v2", "c": c0, "rate": "0.500000000000000000", "signer": other})
	w.Block("p", 5, nil, map[string]any{"a": "OptIn", "v": "v4", "c": c0, "signer": other}, map[string]any{"a": "OptIn", "v": "v4", "c": c0, "key": "k4", "signer": other})
	// the legitimate ones, for contrast
	w.Block("p", 5, nil, map[string]any{"a": "SetCommission", "v": "v2", "c": c0, "rate": "0.250000000000000000"}, map[string]any{"a": "OptIn", "v": "v4", "c": c0})
	for i := 0; i < 3; i++ {
		w.Block("p", 5, nil)
	}
	w.Block("p", 5, nil, map[string]any{"a": "OptOut", "v": "v4", "c": c0, "signer": other}, map[string]any{"a": "OptOut", "v": "v3", "c": c0})
	// owner messages by outsiders, authority-only messages by users
	w.Block("p", 5, nil, map[string]any{"a": "UpdateConsumer", "sender": "o2", "c": c0, "newOwner": "o2"},
		map[string]any{"a": "RemoveConsumer", "sender": "u1", "c": c0},
		map[string]any{"a": "UpdateParams", "authority": "o1", "M": 2},
		map[string]any{"a": "ChangeRewardDenoms", "authority": "u1", "add": []string{"photon"}})
	// the authority itself, with values around and beyond 32 bits for the size of the provider's consensus set
	ms := []string{"4294967296", "4294967297", "1099511627776", "4294967298", "9223372036854775807", "2147483648"}
	w.GovExec(map[string]any{"a": "UpdateParams", "Mstr": ms[variant%len(ms)]})
	for i := 0; i < 3; i++ {
		w.Block("p", 5, nil)
	}
	w.Block("p", 5, nil, map[string]any{"a": "Delegate", "v": "v4", "amt": 2500000})
	for i := 0; i < 3; i++ {
		w.Block("p", 5, nil)
	}
	w.GovExec(map[string]any{"a": "UpdateParams", "M": 2 + variant%2})
	for i := 0; i < 3; i++ {
		w.Block("p", 5, nil)
	}
	w.GovExec(map[string]any{"a": "UpdateParams", "Mstr": ms[(variant+1)%len(ms)]}, map[string]any{"a": "ChangeRewardDenoms", "add": []string{"photon"}})
	for i := 0; i < 3; i++ {
		w.Block("p", 5, nil)
	}
}

// forged slash packets, systematically: a compromised consumer sends every combination of infraction kind, validator-set
// update id (0, issued, never issued), kind of validator key (member with provider key, member with assigned key, assigned
// key of a validator that left the set, unknown key) and reported power; an honest validator with an assigned key is
// reported after it opted out (a report that is merely late)
func scForgedSlash(t *testing.T, w *World, variant int) {
	c0 := w.quickConsumer("fs-1", 1, []string{"v1", "v2", "v3", "v4", "v5"}, nil)
	w.Block("p", 5, nil, map[string]any{"a": "AssignKey", "v": "v2", "c": c0, "key": "k2"}, map[string]any{"a": "AssignKey", "v": "v4", "c": c0, "key": "k4"})
	w.StartConsumer(c0)
	if err := w.Connect(c0); err != nil {
		return
	}
	w.OpenChannel(c0, w.defaultChanCfg(c0))
	sync := func(n int) {
		for i := 0; i < n; i++ {
			w.Block("p", 5, nil, map[string]any{"a": "RelayTo", "c": c0, "n": 1}, map[string]any{"a": "AckTo", "c": c0, "n": 5})
			w.Block(c0, 5, nil, map[string]any{"a": "RelayTo", "n": 5}, map[string]any{"a": "AckTo", "n": 5})
		}
	}
	sync(4)
	// v4 leaves the consumer (its key k4 stays assigned)
	w.Block("p", 5, nil, map[string]any{"a": "OptOut", "v": "v4", "c": c0})
	sync(3)
	type combo struct {
		inf, key string
		id       int64 // -1, -2: relative to the current id; others literal
	}
	var valid, invalid []combo
	for _, inf := range []string{"downtime", "doublesign"} {
		for _, key := range []string{"pk1", "k2", "k4", "k8", "pk3", "pk5"} {
			for _, id := range []int64{0, -1, -2} {
				valid = append(valid, combo{inf, key, id})
			}
		}
	}
	for _, key := range []string{"pk1", "k2", "k4", "k8", "pk3", "pk5"} {
		for _, id := range []int64{9999, 1000003} {
			for _, inf := range []string{"doublesign", "downtime"} {
				invalid = append(invalid, combo{inf, key, id})
			}
		}
	}
	send := func(cb combo, power int64) {
		id := cb.id
		if id < 0 {
			id = int64(w.P.PApp.ProviderKeeper.GetValidatorSetUpdateId(w.P.GetContext())) + id
			if id < 0 {
				id = 0
			}
		}
		if err := w.ForgeSlash(c0, cb.key, id, cb.inf, power); err != nil {
			return
		}
		w.Block(c0, 5, nil)
		w.Block("p", 5, nil, map[string]any{"a": "UpdateClient", "c": c0})
		w.Block("p", 5, nil, map[string]any{"a": "RelayTo", "c": c0, "n": 1})
		w.Block("p", 5, nil)
		w.Block(c0, 5, nil, map[string]any{"a": "UpdateClient"})
		w.Block(c0, 5, nil, map[string]any{"a": "RelayTo", "n": 5}, map[string]any{"a": "AckTo", "n": 5})
		// jailed validators come back, so that later reports find them in the set again
		w.Block("p", 700, nil, map[string]any{"a": "Unjail", "v": "v1"}, map[string]any{"a": "Unjail", "v": "v2"}, map[string]any{"a": "Unjail", "v": "v3"}, map[string]any{"a": "Unjail", "v": "v5"})
		sync(2)
	}
	// a sample of the valid combinations, different per variant
	for i, cb := range valid {
		if (i+variant)%3 == 0 {
			send(cb, int64(1+(i+variant)%3))
		}
	}
	// a rejected packet makes the consumer close the channel: only the first invalid one gets through
	send(invalid[variant%len(invalid)], 1)
	// v4 opts in again: the consumer learns about both changes, possibly in one block
	w.Block("p", 5, nil, map[string]any{"a": "OptIn", "v": "v4", "c": c0})
	sync(3)
	w.Block("p", 700, nil, map[string]any{"a": "Unjail", "v": "v1"}, map[string]any{"a": "Unjail", "v": "v2"})
	sync(2)
}
