package harness

import (
	"fmt"
	"math/rand"
	"sort"
	"testing"
)

// Driver is the seeded random driver: every choice comes from rng, so a seed replays the same history.
type Driver struct {
	W       *World
	R       *rand.Rand
	Seed    int64
	Profile string
	nextVal int // next creatable validator index
	started map[string]bool
	linked  map[string]bool
	chainNo int
	Log     []string
	downP   map[string]int // provider key -> remaining absent blocks
	downC   map[string]map[string]int
	sinceUpd map[string]int64
	expired  map[string]bool
}

func (d *Driver) pick(xs []string) string { return xs[d.R.Intn(len(xs))] }
func (d *Driver) chance(p float64) bool   { return d.R.Float64() < p }
func (d *Driver) logf(f string, a ...any) { d.Log = append(d.Log, fmt.Sprintf(f, a...)) }

func RandomConfig(r *rand.Rand, profile string) Config {
	cfg := DefaultConfig()
	cfg.NumVals = 4 + r.Intn(3)
	pool := []int64{1000000, 1000000, 1200000, 1999999, 2000000, 2500000, 3000000, 1000001, 4000000}
	cfg.Tokens = nil
	for i := 0; i < cfg.NumVals; i++ {
		cfg.Tokens = append(cfg.Tokens, pool[r.Intn(len(pool))])
	}
	cfg.MaxProvVals = []int64{2, 3, int64(cfg.NumVals), 10}[r.Intn(4)]
	cfg.MaxStakingVals = []uint32{uint32(cfg.NumVals), uint32(cfg.NumVals) + 2, 10}[r.Intn(3)]
	cfg.BlocksPerEpoch = int64(1 + r.Intn(3))
	cfg.Unbonding = 4 * 3600
	cfg.ConsUnbonding = 3 * 3600
	cfg.ReplenishPer = []int64{1800, 3600}[r.Intn(2)]
	cfg.ReplenishFrac = []string{"0.10", "0.34", "0.05", "1.0"}[r.Intn(4)]
	cfg.DowntimeJail = 600
	cfg.CCVTimeout = 3 * 3600
	cfg.EpochsToReward = int64(r.Intn(3))
	return cfg
}

func NewDriver(t testing.TB, seed int64, profile string) *Driver {
	r := rand.New(rand.NewSource(seed))
	cfg := RandomConfig(r, profile)
	w := NewWorld(t, cfg)
	d := &Driver{W: w, R: r, Seed: seed, Profile: profile, nextVal: cfg.NumVals + 1,
		started: map[string]bool{}, linked: map[string]bool{}, downP: map[string]int{}, downC: map[string]map[string]int{},
		sinceUpd: map[string]int64{}, expired: map[string]bool{}}
	return d
}

func (d *Driver) valNames() []string { return append([]string{}, d.W.N.ValNames...) }

func (d *Driver) consumerNames() []string {
	ctx := d.W.P.GetContext()
	n, _ := d.W.P.PApp.ProviderKeeper.GetConsumerId(ctx)
	var out []string
	for i := uint64(0); i < n; i++ {
		out = append(out, fmt.Sprintf("c%d", i))
	}
	return out
}

func (d *Driver) phase(c string) string {
	return phaseNames[d.W.P.PApp.ProviderKeeper.GetConsumerPhase(d.W.P.GetContext(), consIDOf(c))]
}

func (d *Driver) owner(c string) string {
	o, _ := d.W.P.PApp.ProviderKeeper.GetConsumerOwnerAddress(d.W.P.GetContext(), consIDOf(c))
	return d.W.N.acctName(o)
}

func (d *Driver) randSubset(xs []string, pEach float64) []string {
	var out []string
	for _, x := range xs {
		if d.chance(pEach) {
			out = append(out, x)
		}
	}
	return out
}

func (d *Driver) randShaping(topNAllowed bool) map[string]any {
	vals := d.valNames()
	m := map[string]any{}
	if topNAllowed && d.chance(0.5) {
		m["topN"] = []int{50, 51, 66, 67, 80, 90, 100}[d.R.Intn(7)]
	}
	if d.chance(0.3) {
		m["valCap"] = 1 + d.R.Intn(4)
	}
	if d.chance(0.3) {
		m["powCap"] = []int{1, 10, 20, 33, 34, 50, 60, 99}[d.R.Intn(8)]
	}
	if d.chance(0.25) {
		m["minStake"] = []int{1000000, 1000001, 1500000, 2000000}[d.R.Intn(4)]
	}
	if d.chance(0.5) {
		m["allowInactive"] = true
	}
	if d.chance(0.2) {
		m["allowL"] = d.randSubset(vals, 0.6)
	}
	if d.chance(0.2) {
		m["denyL"] = d.randSubset(vals, 0.25)
	}
	if d.chance(0.3) {
		m["prioL"] = d.randSubset(vals, 0.4)
	}
	return m
}

func (d *Driver) nowSecs() int64 { return d.W.secs(d.W.Now) }

// providerTxs draws 0..3 abstract provider transactions.
func (d *Driver) providerTxs() []map[string]any {
	var txs []map[string]any
	used := map[string]bool{}
	n := d.R.Intn(4)
	vals := d.valNames()
	cons := d.consumerNames()
	for i := 0; i < n; i++ {
		var a map[string]any
		signer := ""
		switch k := d.R.Intn(28); {
		case k < 4:
			signer = "del"
			a = map[string]any{"a": "Delegate", "v": d.pick(vals), "amt": []int64{1, 100000, 500000, 999999, 1000000, 2000000}[d.R.Intn(6)]}
		case k < 6:
			signer = "del"
			a = map[string]any{"a": "Undelegate", "v": d.pick(vals), "amt": []int64{1, 100000, 500000, 1000000}[d.R.Intn(4)]}
		case k < 7:
			signer = "del"
			a = map[string]any{"a": "Redelegate", "v": d.pick(vals), "v2": d.pick(vals), "amt": []int64{100000, 500000, 1000000}[d.R.Intn(3)]}
		case k < 8:
			v := d.pick(vals)
			signer = "op:" + v
			a = map[string]any{"a": "Unjail", "v": v}
		case k < 10:
			if len(cons) >= 4 {
				continue
			}
			signer = d.pick([]string{"o1", "o2"})
			d.chainNo++
			a = map[string]any{"a": "CreateConsumer", "sender": signer, "chain": fmt.Sprintf("cons%d-%d", d.chainNo, 1+d.R.Intn(2))}
			if d.chance(0.8) {
				init := map[string]any{"initRev": 0}
				// chain id revision matches unless we want a failing launch
				var rev int
				fmt.Sscanf(a["chain"].(string)[len(fmt.Sprintf("cons%d-", d.chainNo)):], "%d", &rev)
				init["initRev"] = rev
				if d.chance(0.85) {
					init["spawn"] = d.nowSecs() + []int64{1, 10, 30, 120}[d.R.Intn(4)]
				}
				a["init"] = init
			}
			if d.chance(0.6) {
				a["shaping"] = d.randShaping(false)
			}
		case k < 12:
			if len(cons) == 0 {
				continue
			}
			c := d.pick(cons)
			signer = d.owner(c)
			if signer == "gov" || signer == "" || len(signer) > 3 {
				continue
			}
			a = map[string]any{"a": "UpdateConsumer", "sender": signer, "c": c}
			ph := d.phase(c)
			if d.chance(0.6) {
				a["shaping"] = d.randShaping(false)
			}
			if (ph == "registered" || ph == "initialized") && d.chance(0.5) {
				a["init"] = map[string]any{"initRev": d.chainRev(c), "spawn": d.nowSecs() + []int64{1, 10, 60}[d.R.Intn(3)]}
			}
			if d.chance(0.2) {
				// rename the chain, possibly to another revision (with or without matching initialization parameters)
				d.chainNo++
				rev := 1 + d.R.Intn(3)
				a["newChain"] = fmt.Sprintf("ren%d-%d", d.chainNo, rev)
				if init, ok := a["init"].(map[string]any); ok && d.chance(0.6) {
					init["initRev"] = rev
				}
			}
		case k < 16:
			if len(cons) == 0 {
				continue
			}
			v := d.pick(vals)
			signer = "op:" + v
			a = map[string]any{"a": "OptIn", "v": v, "c": d.pick(cons)}
			if d.chance(0.3) {
				a["key"] = fmt.Sprintf("k%d", 1+d.R.Intn(d.W.Cfg.NumExtraKeys))
			}
		case k < 17:
			if len(cons) == 0 {
				continue
			}
			v := d.pick(vals)
			signer = "op:" + v
			a = map[string]any{"a": "OptOut", "v": v, "c": d.pick(cons)}
		case k < 19:
			if len(cons) == 0 {
				continue
			}
			v := d.pick(vals)
			signer = "op:" + v
			keys := []string{}
			for i := 1; i <= d.W.Cfg.NumExtraKeys; i++ {
				keys = append(keys, fmt.Sprintf("k%d", i))
			}
			for i := 1; i <= d.W.Cfg.NumVals; i++ {
				keys = append(keys, fmt.Sprintf("pk%d", i))
			}
			a = map[string]any{"a": "AssignKey", "v": v, "c": d.pick(cons), "key": d.pick(keys)}
		case k < 20:
			if len(cons) == 0 {
				continue
			}
			c := d.pick(cons)
			signer = d.owner(c)
			if signer == "gov" || len(signer) > 3 || d.phase(c) != "launched" || !d.chance(0.5) {
				continue
			}
			a = map[string]any{"a": "RemoveConsumer", "sender": signer, "c": c}
		case k < 22:
			// infraction parameter request (partial, repeated, cancelling)
			if len(cons) == 0 {
				continue
			}
			c := d.pick(cons)
			signer = d.owner(c)
			if signer == "gov" || len(signer) > 3 {
				continue
			}
			inf := map[string]any{}
			if d.chance(0.6) {
				inf["dt"] = map[string]any{"frac": d.pick([]string{"0.000000000000000000", "0.010000000000000000", "0.100000000000000000"}), "jail": []int64{600, 1200, 7200}[d.R.Intn(3)], "tomb": false}
			}
			if d.chance(0.5) {
				inf["ds"] = map[string]any{"frac": d.pick([]string{"0.050000000000000000", "0.100000000000000000", "0.500000000000000000"}), "jail": []int64{2000000000, 86400}[d.R.Intn(2)], "tomb": d.chance(0.7)}
			}
			if len(inf) == 0 {
				continue
			}
			a = map[string]any{"a": "UpdateConsumer", "sender": signer, "c": c, "infr": inf}
		case k < 23:
			if len(cons) == 0 {
				continue
			}
			v := d.pick(vals)
			signer = "op:" + v
			a = map[string]any{"a": "SetCommission", "v": v, "c": d.pick(cons), "rate": d.pick([]string{"0.000000000000000000", "0.100000000000000000", "0.500000000000000000", "1.000000000000000000"})}
		case k < 25:
			// unauthorized attempts: a validator message signed by another operator, or an owner message from a non-owner
			if len(cons) == 0 {
				continue
			}
			c := d.pick(cons)
			if d.chance(0.5) {
				v := d.pick(vals)
				other := d.pick(vals)
				if other == v {
					continue
				}
				signer = "op:" + other
				kind := d.pick([]string{"OptIn", "OptOut", "AssignKey", "SetCommission"})
				a = map[string]any{"a": kind, "v": v, "c": c, "signer": "op" + other[1:], "key": "k1", "rate": "0.100000000000000000"}
			} else {
				signer = d.pick([]string{"o1", "o2", "u1"})
				if signer == d.owner(c) {
					continue
				}
				if d.chance(0.5) {
					a = map[string]any{"a": "UpdateConsumer", "sender": signer, "c": c, "newOwner": signer}
				} else {
					a = map[string]any{"a": "RemoveConsumer", "sender": signer, "c": c}
				}
			}
		case k < 26:
			// a Top-N request by a non-governance owner, or creating a Top-N consumer directly
			if len(cons) > 0 && d.chance(0.5) {
				c := d.pick(cons)
				signer = d.owner(c)
				if signer == "gov" || len(signer) > 3 {
					continue
				}
				a = map[string]any{"a": "UpdateConsumer", "sender": signer, "c": c, "shaping": map[string]any{"topN": 60}}
			} else {
				signer = "u1"
				d.chainNo++
				a = map[string]any{"a": "CreateConsumer", "sender": signer, "chain": fmt.Sprintf("cons%d-1", d.chainNo), "shaping": map[string]any{"topN": 70}}
			}
		case k < 27:
			// governance-only messages sent by a user
			signer = "u1"
			if d.chance(0.5) {
				a = map[string]any{"a": "UpdateParams", "authority": "u1", "M": 1}
			} else {
				a = map[string]any{"a": "ChangeRewardDenoms", "authority": "u1", "add": []string{"evil"}}
			}
		default:
			// a new provider validator, sometimes with a consensus key that is in use on a consumer
			if d.nextVal > d.W.Cfg.NumVals+4 {
				continue
			}
			v := fmt.Sprintf("v%d", d.nextVal)
			d.nextVal++
			signer = "op:" + v
			key := fmt.Sprintf("pk%d", d.nextVal)
			if d.chance(0.4) {
				key = fmt.Sprintf("k%d", 1+d.R.Intn(d.W.Cfg.NumExtraKeys))
			}
			a = map[string]any{"a": "CreateValidator", "v": v, "key": key, "amt": []int64{1000000, 1500000, 2000000}[d.R.Intn(3)]}
		}
		if a == nil || used[signer] {
			continue
		}
		used[signer] = true
		txs = append(txs, a)
	}
	return txs
}

func (d *Driver) chainRev(c string) int {
	id, _ := d.W.P.PApp.ProviderKeeper.GetConsumerChainId(d.W.P.GetContext(), consIDOf(c))
	rev := 0
	for i := len(id) - 1; i >= 0; i-- {
		if id[i] == '-' {
			fmt.Sscanf(id[i+1:], "%d", &rev)
			break
		}
	}
	return rev
}

func (d *Driver) pendingTo(c string, toConsumer bool) int {
	lk := d.W.Links[c]
	if lk == nil {
		return 0
	}
	if toConsumer {
		return len(d.W.net.pkts[chanKey("p", "provider", lk.PChan)])
	}
	return len(d.W.net.pkts[chanKey(c, "consumer", lk.CChan)])
}

func (d *Driver) acksFor(c string, forProvider bool) int {
	lk := d.W.Links[c]
	if lk == nil {
		return 0
	}
	if forProvider {
		return len(d.W.net.acks[chanKey("p", "provider", lk.PChan)])
	}
	return len(d.W.net.acks[chanKey(c, "consumer", lk.CChan)])
}

func (d *Driver) dt() int64 {
	return []int64{5, 5, 5, 30, 60, 300, 600, 1200}[d.R.Intn(8)]
}

func (d *Driver) absentOn(chain string, m map[string]int) []string {
	var out []string
	for k, n := range m {
		if n > 0 {
			out = append(out, k)
			m[k] = n - 1
		}
	}
	sort.Strings(out)
	return out
}

// keepalive refreshes the light clients of every started consumer when they have not been updated for a while
// (a real relayer does this continuously); expiry itself is exercised by a dedicated, rare step.
func (d *Driver) keepalive() {
	w := d.W
	now := d.nowSecs()
	for _, c := range sortedKeys(d.started) {
		ch := w.Chains[c]
		if ch == nil || ch.Halted || d.expired[c] {
			continue
		}
		if now-d.sinceUpd[c] < 2400 {
			continue
		}
		w.Block(c, 5, nil, map[string]any{"a": "UpdateClient"})
		w.Block("p", 5, d.absentOn("p", d.downP), map[string]any{"a": "UpdateClient", "c": c})
		d.sinceUpd[c] = d.nowSecs()
	}
}

// Step performs one random step.
func (d *Driver) Step() {
	w := d.W
	d.keepalive()
	started := sortedKeys(d.started)
	k := d.R.Intn(100)
	switch {
	case k < 45 || len(started) == 0 && k < 85:
		// provider block
		txs := d.providerTxs()
		for _, c := range started {
			if w.Chains[c] == nil || w.Chains[c].Halted {
				continue
			}
			if n := d.pendingTo(c, false); n > 0 && d.chance(0.6) {
				k := 1 + d.R.Intn(n)
				if w.providerLive() <= 4 {
					k = 1
				}
				txs = append(txs, map[string]any{"a": "RelayTo", "c": c, "n": k})
			}
			if n := d.acksFor(c, true); n > 0 && d.chance(0.6) {
				txs = append(txs, map[string]any{"a": "AckTo", "c": c, "n": 1 + d.R.Intn(n)})
			}
			if d.pendingTo(c, true) > 0 && d.chance(0.3) {
				txs = append(txs, map[string]any{"a": "TimeoutTo", "c": c})
			}
		}
		if d.chance(0.04) {
			keys := sortedKeys(w.P.Engine)
			down := 0
			for _, n := range d.downP {
				if n > 0 {
					down++
				}
			}
			if len(keys) > 0 && w.providerLive()-down > 2 {
				d.downP[d.pick(keys)] = 3
			}
		}
		w.Block("p", d.dt(), d.absentOn("p", d.downP), txs...)
	case k < 85:
		// consumer block
		c := d.pick(started)
		ch := w.Chains[c]
		if ch == nil || ch.Halted {
			return
		}
		var txs []map[string]any
		if n := d.pendingTo(c, true); n > 0 && d.chance(0.7) {
			txs = append(txs, map[string]any{"a": "RelayTo", "n": 1 + d.R.Intn(n), "batch": d.chance(0.5)})
		}
		if n := d.acksFor(c, false); n > 0 && d.chance(0.7) {
			txs = append(txs, map[string]any{"a": "AckTo", "n": 1 + d.R.Intn(n)})
		}
		if d.downC[c] == nil {
			d.downC[c] = map[string]int{}
		}
		if d.chance(0.06) && len(ch.Engine) > 1 {
			d.downC[c][d.pick(sortedKeys(ch.Engine))] = 3
		}
		if d.linked[c] && d.chance(0.10) {
			// a compromised consumer reports whatever it likes
			keys := []string{}
			for i := 1; i <= d.W.Cfg.NumExtraKeys; i++ {
				keys = append(keys, fmt.Sprintf("k%d", i))
			}
			for i := 1; i <= d.W.Cfg.NumVals; i++ {
				keys = append(keys, fmt.Sprintf("pk%d", i))
			}
			key := d.pick(keys)
			if d.chance(0.5) && len(ch.Engine) > 0 {
				key = d.pick(sortedKeys(ch.Engine))
			}
			vsc := int64(0)
			switch d.R.Intn(4) {
			case 0:
				vsc = 0
			case 1:
				vsc = 9999 // never issued
			default:
				vsc = int64(w.P.PApp.ProviderKeeper.GetValidatorSetUpdateId(w.P.GetContext())) - int64(d.R.Intn(3))
				if vsc < 0 {
					vsc = 0
				}
			}
			inf := "downtime"
			if d.chance(0.15) {
				inf = "doublesign"
			}
			if err := w.ForgeSlash(c, key, vsc, inf, 1+int64(d.R.Intn(5))); err != nil {
				d.logf("forge: %v", err)
			}
		}
		w.Block(c, d.dt(), d.absentOn(c, d.downC[c]), txs...)
	case k < 93:
		// start a launched consumer's chain and/or connect it
		for _, c := range d.consumerNames() {
			if d.phase(c) == "launched" && !d.started[c] && d.chance(0.7) {
				func() {
					defer func() {
						if r := recover(); r != nil {
							d.logf("start %s failed: %v", c, r)
						}
					}()
					w.StartConsumer(c)
					d.started[c] = true
				}()
				return
			}
		}
		for _, c := range started {
			if !d.linked[c] && d.phase(c) == "launched" && d.chance(0.7) {
				d.linked[c] = true
				if err := w.Connect(c); err != nil {
					d.logf("connect %s: %v", c, err)
					return
				}
				if step, err := w.OpenChannel(c, w.defaultChanCfg(c)); err != nil {
					d.logf("channel %s: %s %v", c, step, err)
				}
				return
			}
		}
		w.Block("p", d.dt(), nil)
	case k < 96:
		cons := d.consumerNames()
		switch d.R.Intn(3) {
		case 0:
			if len(cons) > 0 {
				c := d.pick(cons)
				if o := d.owner(c); o == "o1" || o == "o2" {
					w.Block("p", 5, nil, map[string]any{"a": "UpdateConsumer", "sender": o, "c": c, "newOwner": "gov"})
				} else if o == "gov" {
					a := map[string]any{"a": "UpdateConsumer", "c": c, "shaping": d.randShaping(true)}
					if d.chance(0.2) {
						a["newOwner"] = "o1"
					}
					w.GovExec(a)
				}
			}
		case 1:
			a := map[string]any{"a": "UpdateParams"}
			if d.chance(0.6) {
				a["M"] = []int{1, 2, 3, 4, 6, 10}[d.R.Intn(6)]
			} else {
				a["bpe"] = 1 + d.R.Intn(3)
			}
			w.GovExec(a)
		default:
			w.GovExec(map[string]any{"a": "ChangeRewardDenoms", "add": []string{d.pick([]string{"photon", "stake", "ibc/ABC"})}})
		}
	default:
		// let time pass on every chain, keeping the light clients alive; sometimes a whole unbonding period
		rounds := 1
		if d.chance(0.35) {
			rounds = int(w.Cfg.Unbonding/1800) + 1
		}
		if d.chance(0.9) {
			for _, c := range d.consumerNames() {
				if d.phase(c) == "launched" && !d.started[c] {
					func() {
						defer func() {
							if r := recover(); r != nil {
								d.logf("start %s failed: %v", c, r)
							}
						}()
						w.StartConsumer(c)
						d.started[c] = true
					}()
				}
			}
			started = sortedKeys(d.started)
		}
		if len(started) > 0 && d.chance(0.04) {
			d.expired[d.pick(started)] = true // a relayer outage: this consumer's clients are no longer refreshed
		}
		for r := 0; r < rounds && !w.P.Halted; r++ {
			w.Block("p", 1800, d.absentOn("p", d.downP))
			for _, c := range started {
				if w.Chains[c] != nil && !w.Chains[c].Halted {
					w.Block(c, 5, nil)
				}
			}
			d.keepalive()
		}
	}
}

// fastSetup creates 1-2 consumers, opts validators in (some with assigned keys), lets them launch, starts their
// chains and (usually) connects them, possibly some epochs late, so that the random steps exercise packet flow.
func (d *Driver) fastSetup() {
	w := d.W
	vals := d.valNames()
	nc := 1 + d.R.Intn(2)
	for i := 0; i < nc; i++ {
		d.chainNo++
		rev := 1 + d.R.Intn(2)
		a := map[string]any{"a": "CreateConsumer", "sender": d.pick([]string{"o1", "o2"}), "chain": fmt.Sprintf("cons%d-%d", d.chainNo, rev),
			"init": map[string]any{"initRev": rev, "spawn": d.nowSecs() + 40}}
		if d.chance(0.5) {
			a["shaping"] = d.randShaping(false)
		}
		w.Block("p", 5, nil, a)
		c := fmt.Sprintf("c%d", len(d.consumerNames())-1)
		if d.chance(0.4) {
			// make it a Top-N consumer: hand it to governance, which sets Top-N
			w.Block("p", 5, nil, map[string]any{"a": "UpdateConsumer", "sender": a["sender"], "c": c, "newOwner": "gov"})
			sh := d.randShaping(true)
			sh["topN"] = []int{50, 51, 66, 67, 80, 90, 100}[d.R.Intn(7)]
			w.GovExec(map[string]any{"a": "UpdateConsumer", "c": c, "shaping": sh})
		}
		var txs []map[string]any
		for _, v := range vals {
			if d.chance(0.65) {
				tx := map[string]any{"a": "OptIn", "v": v, "c": c}
				if d.chance(0.35) {
					tx["key"] = fmt.Sprintf("k%d", 1+d.R.Intn(d.W.Cfg.NumExtraKeys))
				}
				txs = append(txs, tx)
			}
		}
		w.Block("p", 5, nil, txs...)
	}
	for i := 0; i < 6; i++ {
		w.Block("p", 10, nil)
	}
	for _, c := range d.consumerNames() {
		if d.phase(c) != "launched" {
			continue
		}
		func() {
			defer func() {
				if r := recover(); r != nil {
					d.logf("start %s failed: %v", c, r)
				}
			}()
			w.StartConsumer(c)
			d.started[c] = true
		}()
		if !d.started[c] || !d.chance(0.85) {
			continue
		}
		// channel opened 0..3 epochs late, with staking changes in between so that packets queue up
		late := d.R.Intn(4)
		for j := 0; j < late*int(w.Cfg.BlocksPerEpoch); j++ {
			w.Block("p", 5, nil, map[string]any{"a": "Delegate", "v": d.pick(vals), "amt": 1000000})
		}
		d.linked[c] = true
		if err := w.Connect(c); err != nil {
			d.logf("connect %s: %v", c, err)
			continue
		}
		if step, err := w.OpenChannel(c, w.defaultChanCfg(c)); err != nil {
			d.logf("channel %s: %s %v", c, step, err)
		}
	}
}

// RunRandom executes `steps` random steps and returns the world.
func RunRandom(t testing.TB, seed int64, profile string, steps int) *Driver {
	d := NewDriver(t, seed, profile)
	d.W.rec.Start()
	d.W.Block("p", 5, nil)
	if seed%4 != 0 {
		d.fastSetup()
	}
	for i := 0; i < steps; i++ {
		if d.W.P.Halted {
			break
		}
		d.Step()
	}
	return d
}
