package harness

import (
	"crypto/sha256"
	"encoding/base64"
	"encoding/hex"
	"encoding/json"
	"fmt"
	"math/rand"
	"sort"
	"testing"
	"time"

	abci "github.com/cometbft/cometbft/abci/types"
	cmtproto "github.com/cometbft/cometbft/proto/tendermint/types"
	cmttypes "github.com/cometbft/cometbft/types"

	sdkmath "cosmossdk.io/math"

	"github.com/cosmos/cosmos-sdk/baseapp"
	"github.com/cosmos/cosmos-sdk/client"
	codectypes "github.com/cosmos/cosmos-sdk/codec/types"
	simtestutil "github.com/cosmos/cosmos-sdk/testutil/sims"
	sdk "github.com/cosmos/cosmos-sdk/types"
	authtypes "github.com/cosmos/cosmos-sdk/x/auth/types"
	banktypes "github.com/cosmos/cosmos-sdk/x/bank/types"
	distrtypes "github.com/cosmos/cosmos-sdk/x/distribution/types"
	minttypes "github.com/cosmos/cosmos-sdk/x/mint/types"
	slashingtypes "github.com/cosmos/cosmos-sdk/x/slashing/types"
	stakingtypes "github.com/cosmos/cosmos-sdk/x/staking/types"

	ibctesting "github.com/cosmos/ibc-go/v10/testing"

	appConsumer "github.com/cosmos/interchain-security/v7/app/consumer"
	appProvider "github.com/cosmos/interchain-security/v7/app/provider"
	icstestingutils "github.com/cosmos/interchain-security/v7/testutil/ibc_testing"
	consumertypes "github.com/cosmos/interchain-security/v7/x/ccv/consumer/types"
	providertypes "github.com/cosmos/interchain-security/v7/x/ccv/provider/types"
	ccvtypes "github.com/cosmos/interchain-security/v7/x/ccv/types"
)

func b64(b []byte) string { return base64.StdEncoding.EncodeToString(b) }

// Config holds the per-run constants (all durations in seconds of block time).
type Config struct {
	NumVals        int     `json:"numVals"`
	Tokens         []int64 `json:"tokens"` // initial bonded tokens per validator (base units)
	MaxProvVals    int64   `json:"maxProvVals"`
	MaxStakingVals uint32  `json:"maxStakingVals"`
	BlocksPerEpoch int64   `json:"blocksPerEpoch"`
	Unbonding      int64   `json:"unbonding"`
	ReplenishPer   int64   `json:"replenishPeriod"`
	ReplenishFrac  string  `json:"replenishFrac"`
	CCVTimeout     int64   `json:"ccvTimeout"`
	DowntimeJail   int64   `json:"downtimeJail"`
	SignedWindow   int64   `json:"signedWindow"`
	MinSigned      string  `json:"minSigned"`
	SlashDowntime  string  `json:"slashDowntime"`
	SlashDouble    string  `json:"slashDouble"`
	EpochsToReward int64   `json:"epochsToReward"`
	NumExtraKeys   int     `json:"numExtraKeys"`
	ConsUnbonding  int64   `json:"consUnbonding"`
}

func DefaultConfig() Config {
	return Config{
		NumVals: 4, Tokens: []int64{3000000, 2000000, 1000000, 1000000},
		MaxProvVals: 4, MaxStakingVals: 10, BlocksPerEpoch: 2,
		Unbonding: 8 * 3600, ReplenishPer: 3600, ReplenishFrac: "0.34",
		CCVTimeout: 24 * 3600, DowntimeJail: 600, SignedWindow: 4, MinSigned: "0.5",
		SlashDowntime: "0.01", SlashDouble: "0.05", EpochsToReward: 1, NumExtraKeys: 8,
		ConsUnbonding: 6 * 3600,
	}
}

const BondDenom = "stake"

// Chain wraps an ibctesting.TestChain with the harness' own block production.
type Chain struct {
	*ibctesting.TestChain
	W        *World
	Name     string // "p" or "c<id>"
	IsProv   bool
	ConsID   string // consumer id (consumers only)
	PApp     *appProvider.App
	CApp     *appConsumer.App
	LastVals *cmttypes.ValidatorSet // validators that signed the previous block
	Halted   bool
	// engine-side validator set accumulated from InitChain + FinalizeBlock updates: key name -> power
	Engine map[string]int64
	// per-block recording buffer
	buf []hookEvent
}

type TxSpec struct {
	Kind   string         // abstract action name
	Args   map[string]any // abstract args for the trace
	Signer *Account
	Msgs   []sdk.Msg
	Raw    []byte // pre-built tx bytes (optional)
	OnResult func(code uint32) // called after the block with the tx result code
	Fee      sdk.Coins
}

type TxResult struct {
	Code   uint32
	Log    string
	Events []abci.Event
}

type BlockResult struct {
	Height  int64
	Err     string
	Txs     []TxResult
	Updates []abci.ValidatorUpdate
	Events  []abci.Event
}

// ---------------------------------------------------------------------------------------
// genesis construction

func (w *World) newProvider(t testing.TB, cfg Config) *Chain {
	chainID := "provider"
	app, genesis := icstestingutils.ProviderAppIniter()
	papp := app.(*appProvider.App)
	baseapp.SetChainID(chainID)(app.GetBaseApp())
	cdc := app.AppCodec()

	n := w.N
	var accounts []authtypes.GenesisAccount
	var balances []banktypes.Balance
	addAcct := func(a *Account, amt int64) {
		acc := authtypes.NewBaseAccount(a.Addr(), a.Priv.PubKey(), uint64(len(accounts)), 0)
		accounts = append(accounts, acc)
		balances = append(balances, banktypes.Balance{Address: a.Addr().String(),
			Coins: sdk.NewCoins(sdk.NewCoin(BondDenom, sdkmath.NewInt(amt)))})
	}
	// operators, delegator, users, relayers
	for i := 1; i <= cfg.NumVals+4; i++ { // 4 spare operators for validators created later
		addAcct(n.addAcct(newAccount(fmt.Sprintf("op%d", i), "oper", i)), 1_000_000_000)
	}
	addAcct(n.addAcct(newAccount("del", "dele", 0)), 1_000_000_000)
	for _, nm := range []string{"o1", "o2", "u1"} {
		addAcct(n.addAcct(newAccount(nm, "user", int(nm[1])+int(nm[0])*7)), 1_000_000_000)
	}
	for i := 1; i <= 4; i++ {
		addAcct(n.addAcct(newAccount(fmt.Sprintf("rel%d", i), "rela", i)), 1_000_000_000)
	}
	genesis[authtypes.ModuleName] = cdc.MustMarshalJSON(authtypes.NewGenesisState(authtypes.DefaultParams(), accounts))

	// validators
	var vals []stakingtypes.Validator
	var dels []stakingtypes.Delegation
	var infos []slashingtypes.SigningInfo
	sumBonded := sdkmath.ZeroInt()
	for i := 1; i <= cfg.NumVals; i++ {
		k := n.addKey(newConsKey(fmt.Sprintf("pk%d", i), "pkey", i))
		op := n.Accts[fmt.Sprintf("op%d", i)]
		vname := fmt.Sprintf("v%d", i)
		n.ValNames = append(n.ValNames, vname)
		n.ValByOp[op.ValAddr().String()] = vname
		n.ValByCons[fmt.Sprintf("%x", []byte(k.Addr()))] = vname
		w.ValKey[vname] = k.Name
		tokens := sdkmath.NewInt(cfg.Tokens[(i-1)%len(cfg.Tokens)])
		pkAny, err := codectypes.NewAnyWithValue(k.SDKPub())
		if err != nil {
			panic(err)
		}
		vals = append(vals, stakingtypes.Validator{
			OperatorAddress: op.ValAddr().String(), ConsensusPubkey: pkAny,
			Status: stakingtypes.Bonded, Tokens: tokens, DelegatorShares: sdkmath.LegacyNewDecFromInt(tokens),
			Description:     stakingtypes.Description{Moniker: vname},
			UnbondingTime:   time.Unix(0, 0).UTC(),
			Commission:      stakingtypes.NewCommission(sdkmath.LegacyNewDecWithPrec(1, 1), sdkmath.LegacyOneDec(), sdkmath.LegacyOneDec()),
			MinSelfDelegation: sdkmath.ZeroInt(),
		})
		dels = append(dels, stakingtypes.NewDelegation(op.Addr().String(), op.ValAddr().String(), sdkmath.LegacyNewDecFromInt(tokens)))
		sumBonded = sumBonded.Add(tokens)
		infos = append(infos, slashingtypes.SigningInfo{Address: k.Addr().String(),
			ValidatorSigningInfo: slashingtypes.ValidatorSigningInfo{Address: k.Addr().String()}})
	}
	for i := 1; i <= cfg.NumExtraKeys; i++ {
		n.addKey(newConsKey(fmt.Sprintf("k%d", i), "xkey", i))
	}

	sp := stakingtypes.DefaultParams()
	sp.BondDenom = BondDenom
	sp.UnbondingTime = time.Duration(cfg.Unbonding) * time.Second
	sp.MaxValidators = cfg.MaxStakingVals
	sp.MaxEntries = 100
	sp.HistoricalEntries = 10000
	genesis[stakingtypes.ModuleName] = cdc.MustMarshalJSON(stakingtypes.NewGenesisState(sp, vals, dels))

	slp := slashingtypes.DefaultParams()
	slp.SignedBlocksWindow = cfg.SignedWindow
	slp.MinSignedPerWindow = sdkmath.LegacyMustNewDecFromStr(cfg.MinSigned)
	slp.DowntimeJailDuration = time.Duration(cfg.DowntimeJail) * time.Second
	slp.SlashFractionDowntime = sdkmath.LegacyMustNewDecFromStr(cfg.SlashDowntime)
	slp.SlashFractionDoubleSign = sdkmath.LegacyMustNewDecFromStr(cfg.SlashDouble)
	genesis[slashingtypes.ModuleName] = cdc.MustMarshalJSON(&slashingtypes.GenesisState{Params: slp, SigningInfos: infos})

	// no inflation: rewards bookkeeping stays exact
	var mg minttypes.GenesisState
	cdc.MustUnmarshalJSON(genesis[minttypes.ModuleName], &mg)
	mg.Minter.Inflation = sdkmath.LegacyZeroDec()
	mg.Params.InflationMin = sdkmath.LegacyZeroDec()
	mg.Params.InflationMax = sdkmath.LegacyZeroDec()
	mg.Params.InflationRateChange = sdkmath.LegacyZeroDec()
	mg.Params.MintDenom = BondDenom
	genesis[minttypes.ModuleName] = cdc.MustMarshalJSON(&mg)

	var dg distrtypes.GenesisState
	cdc.MustUnmarshalJSON(genesis[distrtypes.ModuleName], &dg)
	dg.Params.CommunityTax = sdkmath.LegacyNewDecWithPrec(2, 1) // 20 %
	genesis[distrtypes.ModuleName] = cdc.MustMarshalJSON(&dg)

	var pg providertypes.GenesisState
	cdc.MustUnmarshalJSON(genesis[providertypes.ModuleName], &pg)
	pg.Params.BlocksPerEpoch = cfg.BlocksPerEpoch
	pg.Params.MaxProviderConsensusValidators = cfg.MaxProvVals
	pg.Params.SlashMeterReplenishPeriod = time.Duration(cfg.ReplenishPer) * time.Second
	pg.Params.SlashMeterReplenishFraction = cfg.ReplenishFrac
	pg.Params.CcvTimeoutPeriod = time.Duration(cfg.CCVTimeout) * time.Second
	pg.Params.NumberOfEpochsToStartReceivingRewards = cfg.EpochsToReward
	pg.Params.TemplateClient.MaxClockDrift = 100 * time.Hour
	genesis[providertypes.ModuleName] = cdc.MustMarshalJSON(&pg)

	balances = append(balances, banktypes.Balance{
		Address: authtypes.NewModuleAddress(stakingtypes.BondedPoolName).String(),
		Coins:   sdk.Coins{sdk.NewCoin(BondDenom, sumBonded)},
	})
	genesis[banktypes.ModuleName] = cdc.MustMarshalJSON(banktypes.NewGenesisState(
		banktypes.DefaultGenesisState().Params, balances, sdk.NewCoins(), []banktypes.Metadata{}, []banktypes.SendEnabled{}))

	c := &Chain{W: w, Name: "p", IsProv: true, PApp: papp, Engine: map[string]int64{}}
	c.initChain(t, app, chainID, genesis)
	n.Gov = papp.ProviderKeeper.GetAuthority()
	if ga, err := sdk.AccAddressFromBech32(n.Gov); err == nil {
		govAddrBytes = ga
	}
	return c
}

// newConsumer builds the consumer chain for a launched consumer from the genesis the provider stored.
func (w *World) newConsumer(t testing.TB, consumerID string) *Chain {
	p := w.P
	pk := p.PApp.ProviderKeeper
	ctx := p.GetContext()
	chainID, err := pk.GetConsumerChainId(ctx, consumerID)
	if err != nil {
		panic(err)
	}
	gen, found := pk.GetConsumerGenesis(ctx, consumerID)
	if !found {
		panic("no consumer genesis for " + consumerID)
	}
	app, genesis := icstestingutils.ConsumerAppIniter(gen.Provider.InitialValSet)()
	capp := app.(*appConsumer.App)
	baseapp.SetChainID(chainID)(app.GetBaseApp())
	cdc := app.AppCodec()

	// the ccvconsumer genesis section is the provider's stored consumer genesis
	var cg consumertypes.GenesisState
	cdc.MustUnmarshalJSON(genesis[consumertypes.ModuleName], &cg)
	cg.Params = gen.Params
	cg.Provider = gen.Provider
	cg.NewChain = gen.NewChain
	cg.PreCCV = gen.PreCCV
	cg.ConnectionId = gen.ConnectionId
	genesis[consumertypes.ModuleName] = cdc.MustMarshalJSON(&cg)

	var sg slashingtypes.GenesisState
	cdc.MustUnmarshalJSON(genesis[slashingtypes.ModuleName], &sg)
	sg.Params.SignedBlocksWindow = w.Cfg.SignedWindow
	sg.Params.MinSignedPerWindow = sdkmath.LegacyMustNewDecFromStr(w.Cfg.MinSigned)
	sg.Params.DowntimeJailDuration = time.Duration(w.Cfg.DowntimeJail) * time.Second
	genesis[slashingtypes.ModuleName] = cdc.MustMarshalJSON(&sg)

	var accounts []authtypes.GenesisAccount
	var balances []banktypes.Balance
	for _, nm := range []string{"rel1", "rel2", "rel3", "rel4", "u1"} {
		a := w.N.Accts[nm]
		acc := authtypes.NewBaseAccount(a.Addr(), a.Priv.PubKey(), uint64(len(accounts)), 0)
		accounts = append(accounts, acc)
		balances = append(balances, banktypes.Balance{Address: a.Addr().String(),
			Coins: sdk.NewCoins(sdk.NewCoin(BondDenom, sdkmath.NewInt(1_000_000_000)), sdk.NewCoin("photon", sdkmath.NewInt(1_000_000_000)))})
	}
	genesis[authtypes.ModuleName] = cdc.MustMarshalJSON(authtypes.NewGenesisState(authtypes.DefaultParams(), accounts))
	genesis[banktypes.ModuleName] = cdc.MustMarshalJSON(banktypes.NewGenesisState(
		banktypes.DefaultGenesisState().Params, balances, sdk.NewCoins(), []banktypes.Metadata{}, []banktypes.SendEnabled{}))

	c := &Chain{W: w, Name: consIDName(consumerID), ConsID: consumerID, CApp: capp, Engine: map[string]int64{}}
	c.initChain(t, app, chainID, genesis)
	return c
}

func (c *Chain) initChain(t testing.TB, app ibctesting.TestingApp, chainID string, genesis map[string]json.RawMessage) {
	w := c.W
	stateBytes, err := json.MarshalIndent(genesis, "", " ")
	if err != nil {
		panic(err)
	}
	cp := simtestutil.DefaultConsensusParams
	res, err := app.InitChain(&abci.RequestInitChain{
		ChainId: chainID, Time: w.Now, ConsensusParams: cp, AppStateBytes: stateBytes, InitialHeight: 1,
	})
	if err != nil {
		panic(fmt.Errorf("InitChain %s: %w", chainID, err))
	}
	tmVals, err := cmttypes.PB2TM.ValidatorUpdates(res.Validators)
	if err != nil {
		panic(err)
	}
	valSet := cmttypes.NewValidatorSet(tmVals)
	for _, u := range res.Validators {
		c.Engine[w.N.keyNameOfPub(u.PubKey)] = u.Power
	}
	rel := w.N.Accts["rel1"]
	c.TestChain = &ibctesting.TestChain{
		TB: t, Coordinator: w.Coord, ChainID: chainID, App: app,
		ProposedHeader: cmtproto.Header{ChainID: chainID, Height: 1, Time: w.Now.UTC()},
		TxConfig:       app.GetTxConfig(), Codec: app.AppCodec(),
		Vals:           valSet, NextVals: valSet, Signers: w.Signers,
		TrustedValidators: map[uint64]*cmttypes.ValidatorSet{},
		SenderPrivKey:     rel.Priv,
		SenderAccount:     authtypes.NewBaseAccount(rel.Addr(), rel.Priv.PubKey(), 0, 0),
	}
	c.TestChain.SendMsgsOverride = func(msgs ...sdk.Msg) (*abci.ExecTxResult, error) {
		br := c.ProduceBlock([]TxSpec{{Kind: "Raw", Signer: rel, Msgs: msgs}}, 5, nil)
		if br.Err != "" {
			return nil, fmt.Errorf("block error: %s", br.Err)
		}
		r := br.Txs[0]
		tr := &abci.ExecTxResult{Code: r.Code, Log: r.Log, Events: r.Events}
		if r.Code != 0 {
			return tr, fmt.Errorf("tx failed: %s", r.Log)
		}
		return tr, nil
	}
	w.Chains[c.Name] = c
	w.ByChainID[chainID] = append(w.ByChainID[chainID], c)
	c.ProduceBlock(nil, 5, nil) // genesis block (height 1)
}

// ---------------------------------------------------------------------------------------
// transactions

func (c *Chain) accountNumSeq(a *Account) (uint64, uint64) {
	ctx := c.GetContext()
	var acc sdk.AccountI
	if c.IsProv {
		acc = c.PApp.AccountKeeper.GetAccount(ctx, a.Addr())
	} else {
		acc = c.CApp.AccountKeeper.GetAccount(ctx, a.Addr())
	}
	if acc == nil {
		panic("unknown account " + a.Name + " on " + c.Name)
	}
	return acc.GetAccountNumber(), acc.GetSequence()
}

func (c *Chain) signTx(txCfg client.TxConfig, a *Account, seqOffset uint64, msgs []sdk.Msg, fee sdk.Coins) []byte {
	num, seq := c.accountNumSeq(a)
	if fee == nil {
		fee = sdk.Coins{sdk.NewInt64Coin(BondDenom, 0)}
	}
	tx, err := simtestutil.GenSignedMockTx(
		rand.New(rand.NewSource(1)), txCfg, msgs,
		fee, 50_000_000, c.ChainID,
		[]uint64{num}, []uint64{seq + seqOffset}, a.Priv)
	if err != nil {
		panic(err)
	}
	bz, err := txCfg.TxEncoder()(tx)
	if err != nil {
		panic(err)
	}
	return bz
}

// ---------------------------------------------------------------------------------------
// block production

// ProduceBlock runs one real block: FinalizeBlock with all txs, then Commit.
// dt is the block-time advance in seconds; absent names validators (key names) that did not sign the previous block.
func (c *Chain) ProduceBlock(txs []TxSpec, dt int64, absent map[string]bool) *BlockResult {
	w := c.W
	if c.Halted {
		return &BlockResult{Err: "halted"}
	}
	w.Now = w.Now.Add(time.Duration(dt) * time.Second)
	c.ProposedHeader.Time = w.Now.UTC()
	height := c.ProposedHeader.Height

	seqOff := map[string]uint64{}
	var txBytes [][]byte
	for i := range txs {
		tx := &txs[i]
		if tx.Raw == nil {
			tx.Raw = c.signTx(c.TxConfig, tx.Signer, seqOff[tx.Signer.Name], tx.Msgs, tx.Fee)
			// baseapp validates the messages before the ante handler: such a transaction consumes no sequence number
			basicOK := true
			for _, m := range tx.Msgs {
				if vb, ok := m.(interface{ ValidateBasic() error }); ok && vb.ValidateBasic() != nil {
					basicOK = false
				}
			}
			if basicOK {
				seqOff[tx.Signer.Name]++
			}
		}
		txBytes = append(txBytes, tx.Raw)
	}

	// votes of the previous block's validators
	var votes []abci.VoteInfo
	signers := c.LastVals
	if signers == nil {
		signers = c.Vals
	}
	if height > 1 {
		for _, v := range signers.Validators {
			flag := cmtproto.BlockIDFlagCommit
			if absent[w.N.keyName(v.Address)] {
				flag = cmtproto.BlockIDFlagAbsent
			}
			votes = append(votes, abci.VoteInfo{Validator: abci.Validator{Address: v.Address, Power: v.VotingPower}, BlockIdFlag: flag})
		}
	}

	req := &abci.RequestFinalizeBlock{
		Height: height, Time: c.ProposedHeader.Time, NextValidatorsHash: c.NextVals.Hash(),
		Txs: txBytes, DecidedLastCommit: abci.CommitInfo{Votes: votes},
		ProposerAddress: c.Vals.Proposer.Address,
	}
	c.buf = c.buf[:0]
	w.cur = c
	br := &BlockResult{Height: height}
	var res *abci.ResponseFinalizeBlock
	func() {
		defer func() {
			if r := recover(); r != nil {
				br.Err = fmt.Sprintf("panic: %v", r)
			}
		}()
		var err error
		res, err = c.App.FinalizeBlock(req)
		if err != nil {
			br.Err = err.Error()
		}
	}()
	w.cur = nil
	if br.Err != "" {
		c.Halted = true
		w.rec.blockEvents(c, txs, br)
		return br
	}
	for _, r := range res.TxResults {
		br.Txs = append(br.Txs, TxResult{Code: r.Code, Log: r.Log, Events: r.Events})
	}
	br.Updates = res.ValidatorUpdates
	br.Events = res.Events
	for _, u := range res.ValidatorUpdates {
		nm := w.N.keyNameOfPub(u.PubKey)
		if u.Power == 0 {
			delete(c.Engine, nm)
		} else {
			c.Engine[nm] = u.Power
		}
	}
	if _, err := c.App.Commit(); err != nil {
		panic(err)
	}
	// CometBFT cannot run with an empty validator set: the environment stops this chain here
	if len(res.ValidatorUpdates) > 0 {
		changes, err := cmttypes.PB2TM.ValidatorUpdates(res.ValidatorUpdates)
		if err == nil {
			if err := c.NextVals.Copy().UpdateWithChangeSet(changes); err != nil {
				c.Halted = true
				br.Err = ""
				w.rec.blockEvents(c, txs, br)
				w.rec.emit(c.Name, "EnvHalt", map[string]any{"why": trunc(err.Error(), 100)}, nil, nil)
				return br
			}
		}
	}
	// header bookkeeping (mirrors ibctesting.TestChain.commitBlock)
	c.LatestCommittedHeader = c.CurrentTMClientHeader()
	c.TrustedValidators[uint64(height)] = c.NextVals
	c.LastVals = c.Vals
	c.Vals = c.NextVals
	c.NextVals = ibctesting.ApplyValSetChanges(c.TestChain, c.Vals, res.ValidatorUpdates)
	c.Vals.IncrementProposerPriority(1)
	c.ProposedHeader = cmtproto.Header{
		ChainID: c.ChainID, Height: c.App.LastBlockHeight() + 1, AppHash: c.App.LastCommitID().Hash,
		Time: c.ProposedHeader.Time, ValidatorsHash: c.Vals.Hash(), NextValidatorsHash: c.NextVals.Hash(),
		ProposerAddress: c.Vals.Proposer.Address,
	}
	if w.ObsOn {
		if dbgDump != nil {
			dbgDump(c.Name, height, res.String())
		}
		// Log and Info of a transaction result are explicitly non-deterministic in ABCI (a recovered panic puts a
		// stack trace with addresses there) and are not part of what nodes agree on: leave them out
		cp := *res
		cp.TxResults = nil
		for _, tr := range res.TxResults {
			c2 := *tr
			c2.Log, c2.Info = "", ""
			cp.TxResults = append(cp.TxResults, &c2)
		}
		rb, _ := cp.Marshal()
		h := sha256.Sum256(rb)
		w.Obs = append(w.Obs, ObsRec{Chain: c.Name, H: height, App: hex.EncodeToString(c.App.LastCommitID().Hash)[:16], Res: hex.EncodeToString(h[:8])})
	}
	w.net.collect(c, res, br)
	for i := range txs {
		if txs[i].OnResult != nil && i < len(br.Txs) {
			txs[i].OnResult(br.Txs[i].Code)
		}
	}
	w.rec.blockEvents(c, txs, br)
	if c.IsProv {
		w.registerCreatedValidators()
	}
	return br
}

var dbgDump func(chain string, height int64, s string)

func sortedKeys[V any](m map[string]V) []string {
	ks := make([]string, 0, len(m))
	for k := range m {
		ks = append(ks, k)
	}
	sort.Strings(ks)
	return ks
}

var _ = ccvtypes.ModuleName
