package harness

import (
	"bufio"
	"encoding/json"
	"fmt"
	"os"
	"strconv"
	"testing"
	"time"

	abci "github.com/cometbft/cometbft/abci/types"
	cmttypes "github.com/cometbft/cometbft/types"

	storetypes "cosmossdk.io/store/types"

	sdk "github.com/cosmos/cosmos-sdk/types"

	clienttypes "github.com/cosmos/ibc-go/v10/modules/core/02-client/types"
	channeltypes "github.com/cosmos/ibc-go/v10/modules/core/04-channel/types"
	host "github.com/cosmos/ibc-go/v10/modules/core/24-host"
	ibctesting "github.com/cosmos/ibc-go/v10/testing"

	ccvtypes "github.com/cosmos/interchain-security/v7/x/ccv/types"
)

// World is one provider, the consumer chains started so far, a relayer network and a trace recorder.
type World struct {
	T         testing.TB
	Cfg       Config
	N         *Names
	Coord     *ibctesting.Coordinator
	Genesis   time.Time
	Now       time.Time
	P         *Chain
	Chains    map[string]*Chain
	ByChainID map[string][]*Chain
	Signers   map[string]cmttypes.PrivValidator
	ValKey    map[string]string // validator name -> provider key name
	cur       *Chain            // chain currently inside FinalizeBlock
	rec       *Recorder
	net       *Network
	// failpoints armed for the current block: point -> remaining hits to skip before failing (0 = fail at first hit)
	failAt map[string]int
	Links  map[string]*Link // consumer name -> IBC link info
	updPlanned map[string]uint64
	pendingVals []pendingVal
	hsConsumer string // consumer the current handshake step concerns
	ObsOn bool
	poolAddr string
	Obs   []ObsRec
}

type pendingVal struct{ name, op, key string }

// ObsRec is what a node exposes to consensus for one block: the application hash and a digest of the whole
// FinalizeBlock response (transaction results, events, validator updates, consensus parameter updates).
type ObsRec struct {
	Chain string
	H     int64
	App   string
	Res   string
}

// registerCreatedValidators keeps the names given (at tx-building time) to validators that now exist and
// forgets those whose creation failed.
func (w *World) registerCreatedValidators() {
	if len(w.pendingVals) == 0 {
		return
	}
	ctx := w.P.GetContext()
	done := map[string]bool{}
	for _, pv := range w.pendingVals {
		if done[pv.op] {
			continue
		}
		done[pv.op] = true
		// all attempts of this block for the same operator: at most one of them created the validator
		var keys []string
		for _, q := range w.pendingVals {
			if q.op == pv.op {
				keys = append(keys, q.key)
			}
		}
		va, _ := sdk.ValAddressFromBech32(pv.op)
		won := ""
		if val, err := w.P.PApp.StakingKeeper.GetValidator(ctx, va); err == nil {
			if ca, err := val.GetConsAddr(); err == nil {
				won = w.N.keyName(ca)
			}
			w.ValKey[pv.name] = won
		}
		for _, k := range keys {
			if k == won {
				continue
			}
			if ck := fmt.Sprintf("%x", []byte(w.N.Keys[k].Addr())); w.N.ValByCons[ck] == pv.name {
				delete(w.N.ValByCons, ck)
			}
		}
		if won != "" {
			continue
		}
		delete(w.N.ValByOp, pv.op)
		delete(w.ValKey, pv.name)
		for i, nm := range w.N.ValNames {
			if nm == pv.name {
				w.N.ValNames = append(w.N.ValNames[:i], w.N.ValNames[i+1:]...)
				break
			}
		}
	}
	w.pendingVals = nil
}

// Link holds the IBC identifiers of the provider<->consumer connection as the relayer knows them.
type Link struct {
	PClient, CClient   string
	PConn, CConn       string
	PChan, CChan       string // CCV channel ends
	PXfer, CXfer       string // transfer channel ends
}

var (
	recordingDefault = true
	obsDefault       = false
	deltaDefault     = true // provider snapshots as deltas (VERIF_FULLSNAP=1 writes full snapshots)
	deltaCheck       = false // VERIF_DELTACHECK=1: write the full snapshot next to each delta
)

func NewWorld(t testing.TB, cfg Config) *World {
	genesis := time.Date(2030, 1, 1, 0, 0, 0, 0, time.UTC)
	w := &World{T: t, Cfg: cfg, N: newNames(), Genesis: genesis, Now: genesis,
		Chains: map[string]*Chain{}, ByChainID: map[string][]*Chain{},
		Signers: map[string]cmttypes.PrivValidator{}, ValKey: map[string]string{},
		failAt: map[string]int{}, Links: map[string]*Link{}, updPlanned: map[string]uint64{}}
	w.N.Signers = w.Signers
	w.Coord = &ibctesting.Coordinator{T: nil, CurrentTime: genesis, Chains: map[string]*ibctesting.TestChain{}}
	w.rec = &Recorder{w: w}
	w.net = &Network{w: w, pkts: map[string][]*Packet{}, acks: map[string][]*Packet{}}
	ccvtypes.VerifTraceFn = w.onTrace
	ccvtypes.VerifFailFn = w.onFail
	w.ObsOn = obsDefault
	w.P = w.newProvider(t, cfg)
	w.poolAddr = w.P.PApp.ProviderKeeper.GetConsumerRewardsPoolAddressStr(w.P.GetContext())
	return w
}

func (w *World) onTrace(ctx sdk.Context, point string, kv ...string) {
	c := w.cur
	if c == nil || !w.rec.on {
		return
	}
	if point == "TxStart" && (ctx.IsCheckTx() || ctx.IsReCheckTx()) {
		return
	}
	args := map[string]string{}
	for i := 0; i+1 < len(kv); i += 2 {
		args[kv[i]] = kv[i+1]
	}
	// read through a throw-away branch: the projection must never write (some keeper "getters" do)
	rctx, _ := ctx.WithGasMeter(storetypes.NewInfiniteGasMeter()).WithEventManager(sdk.NewEventManager()).CacheContext()
	var snap map[string]any
	if !w.rec.skipSnap(c, point) {
		if c.IsProv {
			snap = w.projectProvider(c, rctx)
		} else {
			snap = w.projectConsumer(c, rctx)
		}
	}
	c.buf = append(c.buf, hookEvent{point: point, kv: args, snap: snap})
}

func (w *World) onFail(ctx sdk.Context, point string) error {
	n, ok := w.failAt[point]
	if !ok {
		return nil
	}
	if n > 0 {
		w.failAt[point] = n - 1
		return nil
	}
	delete(w.failAt, point)
	return fmt.Errorf("verif: injected failure at %s", point)
}

func (w *World) secs(t time.Time) int64 {
	if t.IsZero() || t.Before(w.Genesis) {
		return 0
	}
	d := t.Sub(w.Genesis)
	if d < 0 || d > time.Duration(TimeClamp)*time.Second { // Sub saturates for far-future times
		return TimeClamp
	}
	return int64(d / time.Second)
}

// TimeClamp is the largest time / duration (seconds) reported to TLC; larger values mean "forever".
const TimeClamp = 2_100_000_000

// ---------------------------------------------------------------------------------------
// network

type Packet struct {
	P        channeltypes.Packet
	Src      string // chain name that sent it
	SentAt   int64  // height of the sending block
	Ack      []byte // set when the destination wrote an acknowledgement
	AckAt    int64
	Dst      string
}

type Network struct {
	w    *World
	pkts map[string][]*Packet // key src|port|channel : sent, not yet received
	acks map[string][]*Packet // key src|port|channel : acknowledged on dst, ack not yet delivered to src
	recv map[string]*Packet
}

func chanKey(chain, port, ch string) string { return chain + "|" + port + "|" + ch }

// collect parses send_packet and write_acknowledgement events of a finished block.
func (n *Network) collect(c *Chain, res *abci.ResponseFinalizeBlock, br *BlockResult) {
	var evs []abci.Event
	evs = append(evs, res.Events...)
	for _, r := range res.TxResults {
		if r.Code == 0 {
			evs = append(evs, r.Events...)
		}
	}
	for i, ev := range evs {
		switch ev.Type {
		case channeltypes.EventTypeSendPacket:
			p, err := ibctesting.ParsePacketFromEvents(evs[i : i+1])
			if err != nil {
				continue
			}
			k := chanKey(c.Name, p.SourcePort, p.SourceChannel)
			n.pkts[k] = append(n.pkts[k], &Packet{P: p, Src: c.Name, SentAt: br.Height})
		case channeltypes.EventTypeWriteAck:
			ps, err := ibctesting.ParsePacketsFromEvents(channeltypes.EventTypeWriteAck, evs[i:i+1])
			if err != nil {
				continue
			}
			p := ps[0]
			ack, err := ibctesting.ParseAckFromEvents(evs[i : i+1])
			if err != nil {
				continue
			}
			// find the in-flight record (moved to recv by Relay)
			k := chanKey("", p.SourcePort, p.SourceChannel) + "|" + strconv.FormatUint(p.Sequence, 10) + "|" + c.Name
			if n.recv != nil {
				if pk, ok := n.recv[k]; ok {
					pk.Ack = ack
					pk.AckAt = br.Height
					ak := chanKey(pk.Src, p.SourcePort, p.SourceChannel)
					n.acks[ak] = append(n.acks[ak], pk)
					delete(n.recv, k)
				}
			}
		}
	}
}

// ---------------------------------------------------------------------------------------
// relayer primitives

// settle makes sure src has committed at least one block after height h.
func (w *World) settle(src *Chain, h int64) {
	for src.App.LastBlockHeight() <= h && !src.Halted {
		src.ProduceBlock(nil, 5, nil)
	}
}

// updateClientMsg builds MsgUpdateClient for dst's client `clientID` of src using src's latest committed header.
func (w *World) updateClientMsg(dst *Chain, clientID string, src *Chain, signer *Account) (sdk.Msg, error) {
	trusted, ok := dst.GetClientLatestHeight(clientID).(clienttypes.Height)
	if !ok {
		return nil, fmt.Errorf("no client %s on %s", clientID, dst.Name)
	}
	hdr := *src.LatestCommittedHeader
	h, err := src.IBCClientHeader(&hdr, trusted)
	if err != nil {
		return nil, err
	}
	return clienttypes.NewMsgUpdateClient(clientID, h, signer.Addr().String())
}

func (w *World) needsUpdate(dst *Chain, clientID string, src *Chain) bool {
	cur, ok := dst.GetClientLatestHeight(clientID).(clienttypes.Height)
	if !ok {
		return false
	}
	k := dst.Name + "|" + clientID
	h := uint64(src.App.LastBlockHeight())
	if w.updPlanned[k] >= h {
		return false
	}
	if cur.RevisionHeight < h {
		w.updPlanned[k] = h
		return true
	}
	return false
}

// RelayTxs returns the transactions that deliver up to n pending packets from src to dst over (port, channel of src).
func (w *World) recvTx(src, dst *Chain, dstClient, port, channel string, n int, signer *Account) (*TxSpec, []*Packet) {
	k := chanKey(src.Name, port, channel)
	q := w.net.pkts[k]
	if len(q) == 0 {
		return nil, nil
	}
	if n > len(q) {
		n = len(q)
	}
	batch := q[:n]
	w.settle(src, batch[n-1].SentAt)
	var msgs []sdk.Msg
	if w.needsUpdate(dst, dstClient, src) {
		m, err := w.updateClientMsg(dst, dstClient, src, signer)
		if err == nil {
			msgs = append(msgs, m)
		}
	}
	for _, p := range batch {
		key := host.PacketCommitmentKey(p.P.SourcePort, p.P.SourceChannel, p.P.Sequence)
		proof, ph := src.QueryProof(key)
		msgs = append(msgs, channeltypes.NewMsgRecvPacket(p.P, proof, ph, signer.Addr().String()))
	}
	return &TxSpec{Kind: "Recv", Args: map[string]any{"from": src.Name, "n": n, "port": port}, Signer: signer, Msgs: msgs}, batch
}

// markReceived moves packets from the pending queue to the received table (awaiting the ack event).
func (w *World) markReceived(src, dst *Chain, port, channel string, batch []*Packet) {
	k := chanKey(src.Name, port, channel)
	w.net.pkts[k] = w.net.pkts[k][len(batch):]
	if w.net.recv == nil {
		w.net.recv = map[string]*Packet{}
	}
	for _, p := range batch {
		p.Dst = dst.Name
		rk := chanKey("", p.P.SourcePort, p.P.SourceChannel) + "|" + strconv.FormatUint(p.P.Sequence, 10) + "|" + dst.Name
		w.net.recv[rk] = p
	}
}

func (w *World) unmarkReceived(src, dst *Chain, port, channel string, batch []*Packet) {
	k := chanKey(src.Name, port, channel)
	w.net.pkts[k] = append(append([]*Packet{}, batch...), w.net.pkts[k]...)
	for _, p := range batch {
		rk := chanKey("", p.P.SourcePort, p.P.SourceChannel) + "|" + strconv.FormatUint(p.P.Sequence, 10) + "|" + dst.Name
		delete(w.net.recv, rk)
	}
}

// ackTx returns the transaction delivering up to n acknowledgements back to src (the packet sender).
func (w *World) ackTx(src, dst *Chain, srcClient, port, channel string, n int, signer *Account) (*TxSpec, []*Packet) {
	k := chanKey(src.Name, port, channel)
	q := w.net.acks[k]
	if len(q) == 0 {
		return nil, nil
	}
	if n > len(q) {
		n = len(q)
	}
	batch := q[:n]
	w.settle(dst, batch[n-1].AckAt)
	var msgs []sdk.Msg
	if w.needsUpdate(src, srcClient, dst) {
		m, err := w.updateClientMsg(src, srcClient, dst, signer)
		if err == nil {
			msgs = append(msgs, m)
		}
	}
	for _, p := range batch {
		key := host.PacketAcknowledgementKey(p.P.DestinationPort, p.P.DestinationChannel, p.P.Sequence)
		proof, ph := dst.QueryProof(key)
		msgs = append(msgs, channeltypes.NewMsgAcknowledgement(p.P, p.Ack, proof, ph, signer.Addr().String()))
	}
	return &TxSpec{Kind: "Ack", Args: map[string]any{"from": dst.Name, "n": n, "port": port}, Signer: signer, Msgs: msgs}, batch
}

func (w *World) markAcked(src *Chain, port, channel string, batch []*Packet) {
	k := chanKey(src.Name, port, channel)
	w.net.acks[k] = w.net.acks[k][len(batch):]
}

// ---------------------------------------------------------------------------------------
// trace recorder

type abciEvent = abci.Event

type hookEvent struct {
	point string
	kv    map[string]string
	snap  map[string]any
}

type Recorder struct {
	w      *World
	on     bool
	events []map[string]any
	// light mode: only block-level snapshots for chains/blocks that are not under test
	light bool
	lastSnap map[string]string
	lastTop  map[string]json.RawMessage
	lastCons map[string]json.RawMessage
}

func (r *Recorder) skipSnap(c *Chain, point string) bool { return false }

// Start begins a new trace: the first line is an "Init" event carrying the run constants and the provider state.
func (r *Recorder) Start() {
	if !recordingDefault {
		return
	}
	r.on = true
	r.lastSnap = map[string]string{}
	w := r.w
	cfg := map[string]any{}
	b, _ := json.Marshal(w.Cfg)
	_ = json.Unmarshal(b, &cfg)
	ctx, _ := w.P.GetContext().CacheContext()
	r.emit("p", "Init", map[string]any{"cfg": cfg, "gov": "gov"}, nil, w.projectProvider(w.P, ctx))
}

func (r *Recorder) emit(chain, a string, args any, res any, s map[string]any) {
	if !r.on {
		return
	}
	if args == nil {
		args = map[string]any{}
	}
	if res == nil {
		res = map[string]any{}
	}
	if s == nil {
		s = map[string]any{"same": true}
	} else {
		b, _ := json.Marshal(s)
		if r.lastSnap == nil {
			r.lastSnap = map[string]string{}
		}
		if a != "Init" && r.lastSnap[chain] == string(b) {
			s = map[string]any{"same": true}
		} else {
			r.lastSnap[chain] = string(b)
			if chain == "p" {
				s = r.providerDelta(a, b, s)
			}
		}
	}
	r.events = append(r.events, map[string]any{"i": len(r.events) + 1, "chain": chain, "a": a, "args": sanitize(args), "res": sanitize(res), "s": s})
}

// providerDelta replaces a provider snapshot by the fields that differ from the previous snapshot:
//
//	{"d": {top-level field |-> new value, except "cons"}, "dc": {consumer |-> new record},
//	 "dg": {changed fields of "dig"; for its per-consumer maps only the changed entries}, "dgr": {removed entries}}
//
// Trace.tla rebuilds the full state from its previous one.  A full snapshot is written at "Init" and whenever a
// field or a consumer disappeared.
func (r *Recorder) providerDelta(a string, raw []byte, full map[string]any) map[string]any {
	var cur map[string]json.RawMessage
	if json.Unmarshal(raw, &cur) != nil {
		return full
	}
	var curCons map[string]json.RawMessage
	if c, ok := cur["cons"]; ok {
		if json.Unmarshal(c, &curCons) != nil {
			return full
		}
	}
	prev, prevCons := r.lastTop, r.lastCons
	r.lastTop, r.lastCons = cur, curCons
	if a == "Init" || prev == nil || !deltaDefault {
		return full
	}
	for k := range prev {
		if _, ok := cur[k]; !ok {
			return full
		}
	}
	if len(cur) != len(prev) {
		return full
	}
	for k := range prevCons {
		if _, ok := curCons[k]; !ok {
			return full
		}
	}
	d := map[string]any{}
	out := map[string]any{"d": d}
	for k, v := range cur {
		if k == "cons" {
			continue
		}
		if pv, ok := prev[k]; !ok || string(pv) != string(v) {
			if k == "dig" {
				// the store digests: per-consumer maps as changed / removed entries, the rest as replaced fields
				if dg, dgr, ok := digDelta(pv, v); ok {
					out["dg"], out["dgr"] = dg, dgr
					continue
				}
			}
			d[k] = v
		}
	}
	dc := map[string]any{}
	for k, v := range curCons {
		if pv, ok := prevCons[k]; !ok || string(pv) != string(v) {
			dc[k] = v
		}
	}
	out["dc"] = dc
	if deltaCheck {
		out["full"] = full // self-test of the encoding: Trace.tla's X_DeltaFaithful compares its rebuilt state with this
	}
	return out
}

func digDelta(prev, cur json.RawMessage) (map[string]any, map[string]any, bool) {
	var pm, cm map[string]json.RawMessage
	if json.Unmarshal(prev, &pm) != nil || json.Unmarshal(cur, &cm) != nil || len(pm) != len(cm) {
		return nil, nil, false
	}
	dg, dgr := map[string]any{}, map[string]any{}
	for k, v := range cm {
		pv, ok := pm[k]
		if !ok {
			return nil, nil, false
		}
		if k != "cons" && k != "prefixes" {
			if string(pv) != string(v) {
				dg[k] = v
			}
			continue
		}
		var ps, cs map[string]json.RawMessage
		if json.Unmarshal(pv, &ps) != nil || json.Unmarshal(v, &cs) != nil {
			return nil, nil, false
		}
		ch, rm := map[string]any{}, []any{}
		for c, x := range cs {
			if px, ok := ps[c]; !ok || string(px) != string(x) {
				ch[c] = x
			}
		}
		for c := range ps {
			if _, ok := cs[c]; !ok {
				rm = append(rm, c)
			}
		}
		dg[k], dgr[k] = ch, rm
	}
	for _, k := range []string{"cons", "prefixes"} {
		if _, ok := dg[k]; !ok {
			return nil, nil, false
		}
	}
	return dg, dgr, true
}

// blockEvents turns the hook events buffered during one FinalizeBlock into trace lines.
func (r *Recorder) blockEvents(c *Chain, txs []TxSpec, br *BlockResult) {
	if !r.on {
		return
	}
	w := r.w
	// baseapp runs ValidateBasic before the ante handler: such transactions never reach the TxStart hook,
	// their post-state is their pre-state
	reaches := func(i int) bool {
		for _, m := range txs[i].Msgs {
			if vb, ok := m.(interface{ ValidateBasic() error }); ok {
				if vb.ValidateBasic() != nil {
					return false
				}
			}
		}
		return true
	}
	emitTx := func(i int, snap map[string]any) {
		if i >= len(txs) {
			return
		}
		tx := txs[i]
		res := map[string]any{"code": 0, "log": ""}
		if i < len(br.Txs) {
			res["code"] = int(br.Txs[i].Code)
			if br.Txs[i].Code != 0 {
				res["log"] = trunc(br.Txs[i].Log, 160)
			}
			for k, v := range txObservations(w, c, tx, br.Txs[i]) {
				res[k] = v
			}
		}
		args := map[string]any{}
		for k, v := range tx.Args {
			args[k] = v
		}
		r.emit(c.Name, "Tx:"+tx.Kind, args, res, snap)
	}
	if br.Err != "" {
		// the block failed: no per-transaction results exist; report only the failure
		var lastSnap map[string]any
		for _, ev := range c.buf {
			if ev.snap != nil {
				lastSnap = ev.snap
			}
		}
		r.emit(c.Name, "BlockError", map[string]any{"h": br.Height}, map[string]any{"err": trunc(br.Err, 300)}, lastSnap)
		return
	}
	// cur = index of the transaction whose TxStart was seen last (-1: none yet); next = next tx to be matched
	cur, next := -1, 0
	flushSkipped := func(snap map[string]any) {
		for next < len(txs) && !reaches(next) {
			emitTx(next, snap) // unchanged state
			next++
		}
	}
	var last map[string]any
	for _, ev := range c.buf {
		if ev.snap != nil {
			last = ev.snap
		}
		switch ev.point {
		case "TxStart":
			if cur >= 0 {
				emitTx(cur, ev.snap)
			}
			flushSkipped(ev.snap)
			cur = next
			next++
		case "EndStart":
			if cur >= 0 {
				emitTx(cur, ev.snap)
			}
			flushSkipped(ev.snap)
			cur = -1
			r.emit(c.Name, "EndStart", nil, nil, ev.snap)
		case "EndDone":
			// folded into the Block event below
		default:
			args := map[string]any{}
			for k, v := range ev.kv {
				if k == "c" {
					v = consIDName(v)
				}
				args[k] = v
			}
			r.emit(c.Name, ev.point, args, nil, ev.snap)
		}
	}
	ups := map[string]any{}
	for _, u := range br.Updates {
		ups[w.N.keyNameOfPub(u.PubKey)] = u.Power
	}
	eng := map[string]any{}
	for k, v := range c.Engine {
		eng[k] = v
	}
	r.emit(c.Name, "Block", map[string]any{"h": br.Height, "updates": ups, "engine": eng, "ntx": len(txs)},
		blockObservations(w, c, br), last)
}

func trunc(s string, n int) string {
	if len(s) > n {
		return s[:n]
	}
	return s
}

// WriteTrace writes the recorded events as ndjson.
func (r *Recorder) WriteTrace(path string) error {
	f, err := os.Create(path)
	if err != nil {
		return err
	}
	defer f.Close()
	bw := bufio.NewWriter(f)
	for _, e := range r.events {
		b, err := json.Marshal(e)
		if err != nil {
			return err
		}
		bw.Write(b)
		bw.WriteByte('\n')
	}
	return bw.Flush()
}

// sanitize makes a value safe for TLC's Json module: no nulls, typed slices become generic lists.
func sanitize(v any) any {
	switch x := v.(type) {
	case nil:
		return []any{}
	case map[string]any:
		out := map[string]any{}
		for k, e := range x {
			out[k] = sanitize(e)
		}
		return out
	case map[string]string:
		out := map[string]any{}
		for k, e := range x {
			out[k] = e
		}
		return out
	case []any:
		out := make([]any, 0, len(x))
		for _, e := range x {
			out = append(out, sanitize(e))
		}
		return out
	case []string:
		out := make([]any, 0, len(x))
		for _, e := range x {
			out = append(out, e)
		}
		return out
	case []int:
		out := make([]any, 0, len(x))
		for _, e := range x {
			out = append(out, e)
		}
		return out
	}
	return v
}
