package harness

import (
	"fmt"
	"os"
	"testing"
)

func TestSmoke(t *testing.T) {
	cfg := DefaultConfig()
	w := NewWorld(t, cfg)
	w.rec.Start()
	w.Block("p", 5, nil)
	// create a consumer owned by o1, spawn soon
	spawn := w.secs(w.Now) + 20
	br := w.Block("p", 5, nil, map[string]any{"a": "CreateConsumer", "sender": "o1", "chain": "cons-1",
		"init": map[string]any{"initRev": 1, "spawn": spawn}})
	fmt.Println("create:", br.Err, br.Txs)
	w.Block("p", 5, nil, map[string]any{"a": "OptIn", "v": "v1", "c": "c0"}, map[string]any{"a": "OptIn", "v": "v2", "c": "c0", "key": "k1"})
	for i := 0; i < 4; i++ {
		w.Block("p", 10, nil)
	}
	ctx := w.P.GetContext()
	fmt.Println("phase:", w.P.PApp.ProviderKeeper.GetConsumerPhase(ctx, "0"))
	c := w.StartConsumer("c0")
	fmt.Println("consumer started", c.Name, c.ChainID)
	if err := w.Connect("c0"); err != nil {
		t.Fatal(err)
	}
	if step, err := w.OpenChannel("c0", w.defaultChanCfg("c0")); err != nil {
		t.Fatal(step, err)
	}
	w.Block("p", 5, nil, map[string]any{"a": "Delegate", "v": "v1", "amt": 5000000})
	for i := 0; i < 3; i++ {
		w.Block("p", 10, nil)
	}
	fmt.Println("pending p->c:", len(w.net.pkts[chanKey("p", "provider", w.Links["c0"].PChan)]))
	br = w.Block("c0", 5, nil, map[string]any{"a": "RelayTo", "n": 5})
	fmt.Println("relay:", br.Err, br.Txs)
	w.Block("c0", 5, nil)
	w.Block("c0", 5, nil)
	if err := w.rec.WriteTrace("/tmp/smoke.ndjson"); err != nil {
		t.Fatal(err)
	}
	st, _ := os.Stat("/tmp/smoke.ndjson")
	fmt.Println("trace bytes", st.Size(), "events", len(w.rec.events))
}
