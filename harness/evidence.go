package harness

import (
	"fmt"
	"testing"
	"time"

	cmtproto "github.com/cometbft/cometbft/proto/tendermint/types"
	cmttypes "github.com/cometbft/cometbft/types"

	sdk "github.com/cosmos/cosmos-sdk/types"

	providertypes "github.com/cosmos/interchain-security/v7/x/ccv/provider/types"
)

// EvRec is the abstract double-voting evidence record of Evidence.tla / DESIGN C07; every field is realised
// concretely with real ed25519 votes.
type EvRec struct {
	C          string // consumer the evidence is submitted for
	Key        string // key that signs (name)
	HdrKey     string // key placed in the infraction header's validator set under the signer's address
	ChainOK    bool   // votes are signed for the consumer's own chain id
	SameH      bool
	SameR      bool
	SameT      bool
	SameAddr   bool
	BlockDiff  bool // the two block ids differ
	SigA, SigB bool
	Old        bool // vote height below the consumer's minimum evidence height
}

func validEv(c, key string) EvRec {
	return EvRec{C: c, Key: key, HdrKey: key, ChainOK: true, SameH: true, SameR: true, SameT: true, SameAddr: true, BlockDiff: true, SigA: true, SigB: true}
}

func (e EvRec) args() map[string]any {
	return map[string]any{"c": e.C, "key": e.Key, "hdrKey": e.HdrKey, "chainOk": e.ChainOK, "sameH": e.SameH, "sameR": e.SameR,
		"sameT": e.SameT, "sameAddr": e.SameAddr, "blockDiff": e.BlockDiff, "sigA": e.SigA, "sigB": e.SigB, "old": e.Old, "sender": "u1"}
}

func blockID(seed byte) cmttypes.BlockID {
	h := make([]byte, 32)
	for i := range h {
		h[i] = seed
	}
	return cmttypes.BlockID{Hash: h, PartSetHeader: cmttypes.PartSetHeader{Total: 1, Hash: h}}
}

func (w *World) mkVote(key *ConsKey, chainID string, height int64, round int32, typ cmtproto.SignedMsgType, bid cmttypes.BlockID, goodSig bool) *cmttypes.Vote {
	v := &cmttypes.Vote{Type: typ, Height: height, Round: round, BlockID: bid, Timestamp: w.Now.UTC(),
		ValidatorAddress: key.Pub().Address(), ValidatorIndex: 0}
	sig, err := key.Priv.Sign(cmttypes.VoteSignBytes(chainID, v.ToProto()))
	if err != nil {
		panic(err)
	}
	if !goodSig {
		sig[3] ^= 0x40
	}
	v.Signature = sig
	return v
}

// doubleVotingTx realises an abstract evidence record as MsgSubmitConsumerDoubleVoting.
func (w *World) doubleVotingTx(e EvRec) *TxSpec {
	pk := w.P.PApp.ProviderKeeper
	ctx := w.P.GetContext()
	cid := consIDOf(e.C)
	chainID, err := pk.GetConsumerChainId(ctx, cid)
	if err != nil {
		chainID = "unknown-1"
	}
	if !e.ChainOK {
		chainID = chainID + "x"
	}
	minH := int64(pk.GetEquivocationEvidenceMinHeight(ctx, cid))
	height := minH + 5
	if e.Old {
		height = minH - 1
		if height < 1 {
			height = 0
		}
	}
	key := w.N.Keys[e.Key]
	bidA, bidB := blockID(1), blockID(2)
	if !e.BlockDiff {
		bidB = bidA
	}
	hB, rB, tB := height, int32(0), cmtproto.PrecommitType
	if !e.SameH {
		hB = height + 1
	}
	if !e.SameR {
		rB = 1
	}
	if !e.SameT {
		tB = cmtproto.PrevoteType
	}
	keyB := key
	if !e.SameAddr {
		for _, nm := range []string{"k7", "k8"} {
			if nm != e.Key {
				keyB = w.N.Keys[nm]
				break
			}
		}
	}
	va := w.mkVote(key, chainID, height, 0, cmtproto.PrecommitType, bidA, e.SigA)
	vb := w.mkVote(keyB, chainID, hB, rB, tB, bidB, e.SigB)
	ev := &cmttypes.DuplicateVoteEvidence{VoteA: va, VoteB: vb, TotalVotingPower: 10, ValidatorPower: 1, Timestamp: w.Now.UTC()}
	// the infraction header only has to carry the validator set in which the signer's key is looked up
	hk := w.N.Keys[e.HdrKey]
	val := cmttypes.NewValidator(hk.Pub(), 1)
	val.Address = key.Pub().Address()
	vs := &cmttypes.ValidatorSet{Validators: []*cmttypes.Validator{val}, Proposer: val}
	vsp, err := vs.ToProto()
	if err != nil {
		panic(err)
	}
	hdr := *w.P.LatestCommittedHeader
	hdr.ValidatorSet = vsp
	u1 := w.acct("u1")
	msg := &providertypes.MsgSubmitConsumerDoubleVoting{Submitter: u1.Addr().String(), DuplicateVoteEvidence: ev.ToProto(), InfractionBlockHeader: &hdr, ConsumerId: cid}
	return &TxSpec{Kind: "DoubleVoting", Args: e.args(), Signer: u1, Msgs: []sdk.Msg{msg}}
}

func (w *World) submitEvidence(e EvRec) *BlockResult {
	tx := w.doubleVotingTx(e)
	return w.P.ProduceBlock([]TxSpec{*tx}, 5, nil)
}

func scEvidence(t *testing.T, w *World, variant int) {
	c0 := w.quickConsumer("ev-1", 1, []string{"v1", "v2", "v3"}, map[string]any{
		"init": map[string]any{"initH": 6},
		"infr": map[string]any{"ds": map[string]any{"frac": []string{"0.050000000000000000", "0.500000000000000000", "0.000000000000000000"}[variant%3], "jail": []int64{2000000000, 86400}[variant%2], "tomb": variant%4 != 3}}})
	// twin: another consumer with the same chain id, different members; and one with another chain id
	c1 := w.quickConsumer("ev-1", 1, []string{"v3", "v4"}, nil)
	c2 := w.quickConsumer("other-1", 1, []string{"v1", "v4"}, nil)
	// never launched
	w.Block("p", 5, nil, map[string]any{"a": "CreateConsumer", "sender": "o2", "chain": "reg-1"})
	c3 := fmt.Sprintf("c%d", w.nextConsumerID()-1)
	// keys: v2 uses k1 then replaces it by k2 on the launched consumer (k1 stays attributable); v3 uses k3
	w.Block("p", 5, nil, map[string]any{"a": "AssignKey", "v": "v2", "c": c0, "key": "k1"}, map[string]any{"a": "AssignKey", "v": "v3", "c": c0, "key": "k3"})
	w.Block("p", 5, nil, map[string]any{"a": "AssignKey", "v": "v2", "c": c0, "key": "k2"})
	// stake layouts: an undelegation from v1, a redelegation from v2 to v4
	w.Block("p", 5, nil, map[string]any{"a": "Delegate", "v": "v1", "amt": 2000000}, )
	w.Block("p", 5, nil, map[string]any{"a": "Delegate", "v": "v2", "amt": 2000000})
	w.Block("p", 5, nil, map[string]any{"a": "Undelegate", "v": "v1", "amt": 1000000})
	w.Block("p", 5, nil, map[string]any{"a": "Redelegate", "v": "v2", "v2": "v4", "amt": 1000000})
	w.Block("p", 5, nil)
	keys := []string{"pk1", "k2", "k1", "k3", "pk4", "k6"} // current provider key, current assigned, replaced-in-window, assigned, non-member's key, unknown
	key := keys[variant%len(keys)]
	base := validEv(c0, key)
	muts := []func(*EvRec){
		func(e *EvRec) { e.ChainOK = false }, func(e *EvRec) { e.SigA = false }, func(e *EvRec) { e.SigB = false },
		func(e *EvRec) { e.BlockDiff = false }, func(e *EvRec) { e.SameH = false }, func(e *EvRec) { e.SameR = false },
		func(e *EvRec) { e.SameT = false }, func(e *EvRec) { e.SameAddr = false }, func(e *EvRec) { e.Old = true },
		func(e *EvRec) { e.HdrKey = "k8" }, func(e *EvRec) { e.C = c3 }, func(e *EvRec) { e.C = "c9" },
	}
	// every single-field mutation is rejected
	for i, m := range muts {
		if (variant+i)%2 == 0 || variant < 6 {
			e := base
			m(&e)
			w.submitEvidence(e)
		}
	}
	// the same votes submitted for the other consumers: the twin shares the chain id, so the signature is valid there
	for _, c := range []string{c1, c2} {
		e := base
		e.C = c
		w.submitEvidence(e)
	}
	// the valid evidence, twice (the second time the validator is tombstoned or already punished)
	w.submitEvidence(base)
	w.submitEvidence(base)
	// jailed / unbonding validator as target, and a stopped consumer
	w.Block("p", 5, nil, map[string]any{"a": "RemoveConsumer", "sender": "o1", "c": c0})
	e2 := validEv(c0, "k3")
	w.submitEvidence(e2)
	for i := 0; i < 10; i++ {
		w.Block("p", 1800, nil)
	}
	// after the consumer is deleted nothing can be punished for it any more
	w.submitEvidence(validEv(c0, "pk1"))
	_ = time.Second
}
