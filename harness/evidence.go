package harness

import (
	"fmt"
	"testing"
	"time"

	cmtproto "github.com/cometbft/cometbft/proto/tendermint/types"
	cmttypes "github.com/cometbft/cometbft/types"

	sdk "github.com/cosmos/cosmos-sdk/types"

	clienttypes "github.com/cosmos/ibc-go/v10/modules/core/02-client/types"
	ibctm "github.com/cosmos/ibc-go/v10/modules/light-clients/07-tendermint"

	providertypes "github.com/cosmos/interchain-security/v7/x/ccv/provider/types"
)

// EvRec is the abstract double-voting evidence record of Evidence.tla / DESIGN C07; every field is realised
// concretely with real ed25519 votes.
type EvRec struct {
	C          string // consumer the evidence is submitted for
	Key        string // key that signs (name)
	HdrKey     string // key placed in the infraction header's validator set under the signer's address
	ChainOK    bool   // votes are signed for the consumer's own chain id
	SameH      bool
	SameR      bool
	SameT      bool
	SameAddr   bool
	BlockDiff  bool // the two block ids differ
	SigA, SigB bool
	Old        bool // vote height below the consumer's minimum evidence height
}

func validEv(c, key string) EvRec {
	return EvRec{C: c, Key: key, HdrKey: key, ChainOK: true, SameH: true, SameR: true, SameT: true, SameAddr: true, BlockDiff: true, SigA: true, SigB: true}
}

func (e EvRec) args() map[string]any {
	return map[string]any{"c": e.C, "key": e.Key, "hdrKey": e.HdrKey, "chainOk": e.ChainOK, "sameH": e.SameH, "sameR": e.SameR,
		"sameT": e.SameT, "sameAddr": e.SameAddr, "blockDiff": e.BlockDiff, "sigA": e.SigA, "sigB": e.SigB, "old": e.Old, "sender": "u1"}
}

func blockID(seed byte) cmttypes.BlockID {
	h := make([]byte, 32)
	for i := range h {
		h[i] = seed
	}
	return cmttypes.BlockID{Hash: h, PartSetHeader: cmttypes.PartSetHeader{Total: 1, Hash: h}}
}

func (w *World) mkVote(key *ConsKey, chainID string, height int64, round int32, typ cmtproto.SignedMsgType, bid cmttypes.BlockID, goodSig bool) *cmttypes.Vote {
	v := &cmttypes.Vote{Type: typ, Height: height, Round: round, BlockID: bid, Timestamp: w.Now.UTC(),
		ValidatorAddress: key.Pub().Address(), ValidatorIndex: 0}
	sig, err := key.Priv.Sign(cmttypes.VoteSignBytes(chainID, v.ToProto()))
	if err != nil {
		panic(err)
	}
	if !goodSig {
		sig[3] ^= 0x40
	}
	v.Signature = sig
	return v
}

// doubleVotingTx realises an abstract evidence record as MsgSubmitConsumerDoubleVoting.
func (w *World) doubleVotingTx(e EvRec) *TxSpec {
	pk := w.P.PApp.ProviderKeeper
	ctx := w.P.GetContext()
	cid := consIDOf(e.C)
	chainID, err := pk.GetConsumerChainId(ctx, cid)
	if err != nil {
		chainID = "unknown-1"
	}
	if !e.ChainOK {
		chainID = chainID + "x"
	}
	minH := int64(pk.GetEquivocationEvidenceMinHeight(ctx, cid))
	height := minH + 5
	if e.Old {
		height = minH - 1
		if height < 1 {
			height = 0
		}
	}
	key := w.N.Keys[e.Key]
	bidA, bidB := blockID(1), blockID(2)
	if !e.BlockDiff {
		bidB = bidA
	}
	hB, rB, tB := height, int32(0), cmtproto.PrecommitType
	if !e.SameH {
		hB = height + 1
	}
	if !e.SameR {
		rB = 1
	}
	if !e.SameT {
		tB = cmtproto.PrevoteType
	}
	keyB := key
	if !e.SameAddr {
		for _, nm := range []string{"k7", "k8"} {
			if nm != e.Key {
				keyB = w.N.Keys[nm]
				break
			}
		}
	}
	va := w.mkVote(key, chainID, height, 0, cmtproto.PrecommitType, bidA, e.SigA)
	vb := w.mkVote(keyB, chainID, hB, rB, tB, bidB, e.SigB)
	ev := &cmttypes.DuplicateVoteEvidence{VoteA: va, VoteB: vb, TotalVotingPower: 10, ValidatorPower: 1, Timestamp: w.Now.UTC()}
	// the infraction header only has to carry the validator set in which the signer's key is looked up
	hk := w.N.Keys[e.HdrKey]
	val := cmttypes.NewValidator(hk.Pub(), 1)
	val.Address = key.Pub().Address()
	vs := &cmttypes.ValidatorSet{Validators: []*cmttypes.Validator{val}, Proposer: val}
	vsp, err := vs.ToProto()
	if err != nil {
		panic(err)
	}
	hdr := *w.P.LatestCommittedHeader
	hdr.ValidatorSet = vsp
	u1 := w.acct("u1")
	msg := &providertypes.MsgSubmitConsumerDoubleVoting{Submitter: u1.Addr().String(), DuplicateVoteEvidence: ev.ToProto(), InfractionBlockHeader: &hdr, ConsumerId: cid}
	return &TxSpec{Kind: "DoubleVoting", Args: e.args(), Signer: u1, Msgs: []sdk.Msg{msg}}
}

func (w *World) submitEvidence(e EvRec) *BlockResult {
	tx := w.doubleVotingTx(e)
	return w.P.ProduceBlock([]TxSpec{*tx}, 5, nil)
}

func scEvidence(t *testing.T, w *World, variant int) {
	c0 := w.quickConsumer("ev-1", 1, []string{"v1", "v2", "v3"}, map[string]any{
		"init": map[string]any{"initH": 6},
		"infr": map[string]any{"ds": map[string]any{"frac": []string{"0.050000000000000000", "0.500000000000000000", "0.000000000000000000"}[variant%3], "jail": []int64{2000000000, 86400}[variant%2], "tomb": variant%4 != 3}}})
	// twin: another consumer with the same chain id, different members; and one with another chain id
	c1 := w.quickConsumer("ev-1", 1, []string{"v3", "v4"}, nil)
	c2 := w.quickConsumer("other-1", 1, []string{"v1", "v4"}, nil)
	// never launched
	w.Block("p", 5, nil, map[string]any{"a": "CreateConsumer", "sender": "o2", "chain": "reg-1"})
	c3 := fmt.Sprintf("c%d", w.nextConsumerID()-1)
	// keys: v2 uses k1 then replaces it by k2 on the launched consumer (k1 stays attributable); v3 uses k3
	w.Block("p", 5, nil, map[string]any{"a": "AssignKey", "v": "v2", "c": c0, "key": "k1"}, map[string]any{"a": "AssignKey", "v": "v3", "c": c0, "key": "k3"})
	w.Block("p", 5, nil, map[string]any{"a": "AssignKey", "v": "v2", "c": c0, "key": "k2"})
	// stake layouts: an undelegation from v1, a redelegation from v2 to v4
	w.Block("p", 5, nil, map[string]any{"a": "Delegate", "v": "v1", "amt": 2000000}, )
	w.Block("p", 5, nil, map[string]any{"a": "Delegate", "v": "v2", "amt": 2000000})
	w.Block("p", 5, nil, map[string]any{"a": "Undelegate", "v": "v1", "amt": 1000000})
	w.Block("p", 5, nil, map[string]any{"a": "Redelegate", "v": "v2", "v2": "v4", "amt": 1000000})
	w.Block("p", 5, nil)
	keys := []string{"pk1", "k2", "k1", "k3", "pk4", "k6"} // current provider key, current assigned, replaced-in-window, assigned, non-member's key, unknown
	key := keys[variant%len(keys)]
	base := validEv(c0, key)
	muts := []func(*EvRec){
		func(e *EvRec) { e.ChainOK = false }, func(e *EvRec) { e.SigA = false }, func(e *EvRec) { e.SigB = false },
		func(e *EvRec) { e.BlockDiff = false }, func(e *EvRec) { e.SameH = false }, func(e *EvRec) { e.SameR = false },
		func(e *EvRec) { e.SameT = false }, func(e *EvRec) { e.SameAddr = false }, func(e *EvRec) { e.Old = true },
		func(e *EvRec) { e.HdrKey = "k8" }, func(e *EvRec) { e.C = c3 }, func(e *EvRec) { e.C = "c9" },
	}
	// every single-field mutation is rejected
	for i, m := range muts {
		if (variant+i)%2 == 0 || variant < 6 {
			e := base
			m(&e)
			w.submitEvidence(e)
		}
	}
	// the same votes submitted for the other consumers: the twin shares the chain id, so the signature is valid there
	for _, c := range []string{c1, c2} {
		e := base
		e.C = c
		w.submitEvidence(e)
	}
	// the valid evidence, twice (the second time the validator is tombstoned or already punished)
	w.submitEvidence(base)
	w.submitEvidence(base)
	// jailed / unbonding validator as target, and a stopped consumer
	w.Block("p", 5, nil, map[string]any{"a": "RemoveConsumer", "sender": "o1", "c": c0})
	e2 := validEv(c0, "k3")
	w.submitEvidence(e2)
	for i := 0; i < 10; i++ {
		w.Block("p", 1800, nil)
	}
	// after the consumer is deleted nothing can be punished for it any more
	w.submitEvidence(validEv(c0, "pk1"))
	_ = time.Second
}

// ---------------------------------------------------------------------------------------
// light-client-attack misbehaviour (C07)

// MisbRec is the abstract misbehaviour record: two headers of the consumer chain at one height.
type MisbRec struct {
	C        string
	ClientOK bool     // the message names the consumer's own client
	ChainOK  bool     // headers carry the consumer's chain id
	SameH    bool     // both headers at the same height
	Old      bool     // height below the consumer's minimum evidence height
	SigOK    bool     // commit signatures of header 2 are intact
	Both     []string // key names of validators that sign BOTH headers (header 2 is built over exactly this subset)
}

func (m MisbRec) args() map[string]any {
	return map[string]any{"c": m.C, "clientOk": m.ClientOK, "chainOk": m.ChainOK, "sameH": m.SameH, "old": m.Old, "sigOk": m.SigOK, "both": m.Both, "sender": "u1"}
}

func (w *World) misbehaviourTx(m MisbRec) (*TxSpec, error) {
	c, lk := w.Chains[m.C], w.Links[m.C]
	if c == nil || lk == nil {
		return nil, fmt.Errorf("consumer chain not started")
	}
	trusted, ok := w.P.GetClientLatestHeight(lk.PClient).(clienttypes.Height)
	if !ok {
		return nil, fmt.Errorf("no client")
	}
	tvals, ok := c.TrustedValidators[trusted.RevisionHeight]
	if !ok {
		return nil, fmt.Errorf("no trusted validators at %d", trusted.RevisionHeight)
	}
	full := cmttypes.NewValidatorSet(tvals.Copy().Validators)
	var sub []*cmttypes.Validator
	for _, v := range full.Validators {
		for _, k := range m.Both {
			if w.N.keyName(v.Address) == k {
				sub = append(sub, v.Copy())
			}
		}
	}
	if len(sub) == 0 {
		return nil, fmt.Errorf("no signer")
	}
	alt := cmttypes.NewValidatorSet(sub)
	chainID := c.ChainID
	if !m.ChainOK {
		chainID = "evil-1"
	}
	h1 := int64(trusted.RevisionHeight + 1)
	h2 := h1
	if !m.SameH {
		h2 = h1 + 1
	}
	if m.Old {
		// a height below the minimum evidence height cannot be built on the recorded client; use the lowest possible
		h1, h2 = 1, 1
	}
	t0 := w.Now.Add(time.Minute)
	hdr1 := c.CreateTMClientHeader(chainID, h1, trusted, t0, full, full, full, w.Signers)
	hdr2 := c.CreateTMClientHeader(chainID, h2, trusted, t0.Add(10*time.Second), alt, alt, full, w.Signers)
	if !m.SigOK {
		hdr2.Commit.Signatures[0].Signature[5] ^= 0x20
	}
	client := lk.PClient
	if !m.ClientOK {
		client = "07-tendermint-77"
	}
	u1 := w.acct("u1")
	msg := &providertypes.MsgSubmitConsumerMisbehaviour{Submitter: u1.Addr().String(), ConsumerId: consIDOf(m.C),
		Misbehaviour: &ibctm.Misbehaviour{ClientId: client, Header1: hdr1, Header2: hdr2}}
	return &TxSpec{Kind: "Misbehaviour", Args: m.args(), Signer: u1, Msgs: []sdk.Msg{msg}}, nil
}

func (w *World) submitMisbehaviour(m MisbRec) {
	tx, err := w.misbehaviourTx(m)
	if err != nil {
		w.rec.emit("p", "Skip", map[string]any{"why": err.Error()}, nil, nil)
		return
	}
	w.P.ProduceBlock([]TxSpec{*tx}, 5, nil)
}

func scMisbehaviour(t *testing.T, w *World, variant int) {
	c0 := w.quickConsumer("mb-1", 1, []string{"v1", "v2", "v3"}, map[string]any{
		"infr": map[string]any{"ds": map[string]any{"frac": []string{"0.050000000000000000", "0.200000000000000000"}[variant%2], "jail": 2000000000, "tomb": true}}})
	c1 := w.quickConsumer("mc-1", 1, []string{"v2", "v4"}, nil)
	w.Block("p", 5, nil, map[string]any{"a": "AssignKey", "v": "v2", "c": c0, "key": "k1"})
	// wait for the next epoch so that the assigned key is in the set the chain starts with? (the genesis set was
	// fixed at launch; the key change reaches the consumer through a VSC packet)
	w.StartConsumer(c0)
	w.StartConsumer(c1)
	for _, c := range []string{c0, c1} {
		if err := w.Connect(c); err != nil {
			return
		}
		w.OpenChannel(c, w.defaultChanCfg(c))
	}
	w.Block("p", 5, nil)
	w.Block("p", 5, nil)
	w.Block(c0, 5, nil, map[string]any{"a": "RelayTo", "n": 5})
	w.Block(c0, 5, nil)
	w.Block(c0, 5, nil)
	w.Block(c0, 5, nil)
	w.keepAlive(c0)
	w.keepAlive(c1)
	keys := sortedKeys(w.Chains[c0].Engine)
	all := keys
	// a single validator holding more than a third of the trusted power can sign a conflicting header alone
	one := keys[:1]
	for _, k := range keys {
		if w.Chains[c0].Engine[k] > w.Chains[c0].Engine[one[0]] {
			one = []string{k}
		}
	}
	good := MisbRec{C: c0, ClientOK: true, ChainOK: true, SameH: true, SigOK: true, Both: all}
	for i, mut := range []func(*MisbRec){
		func(m *MisbRec) { m.ClientOK = false }, func(m *MisbRec) { m.ChainOK = false }, func(m *MisbRec) { m.SameH = false },
		func(m *MisbRec) { m.SigOK = false }, func(m *MisbRec) { m.Old = true }, func(m *MisbRec) { m.C = c1 },
	} {
		if (variant+i)%2 == 0 || variant < 3 {
			m := good
			mut(&m)
			if m.C == c1 {
				// c0's headers submitted for another consumer (with c0's client id)
				tx, err := w.misbehaviourTx(good)
				if err == nil {
					msg := tx.Msgs[0].(*providertypes.MsgSubmitConsumerMisbehaviour)
					msg.ConsumerId = consIDOf(c1)
					a := good.args()
					a["c"] = c1
					a["clientOk"] = false
					a["chainOk"] = false
					tx.Args = a
					w.P.ProduceBlock([]TxSpec{*tx}, 5, nil)
				}
				continue
			}
			w.submitMisbehaviour(m)
		}
	}
	if variant%2 == 0 {
		m := good
		m.Both = one
		w.submitMisbehaviour(m) // only the validators that signed both headers are punished
	}
	w.submitMisbehaviour(good)
	w.submitMisbehaviour(good) // second time: everybody is tombstoned already
	w.Block("p", 5, nil)
}
