package harness

import (
	"bufio"
	"encoding/json"
	"fmt"
	"os"
	"path/filepath"
	"sort"
	"testing"
)

// Replay of TLC-generated behaviours (spec -> code).  spec/MC_KeysGen.tla writes one ndjson file per simulated
// behaviour of the key-assignment model; each line is one model step {lbl: action, st: model state after it}.
// The steps between two Ticks become the transactions of ONE provider block, the Tick is the end of that block.
// Every transaction carries the model's verdict and post-state ("mbt"), every block is followed by an "MbtTick"
// event with the model state after the Tick; Trace.tla (MBT_KeysStep, MBT_KeysTick) compares them with what the real
// provider did, next to the property formulas C05_*/C06_* that are evaluated on the same trace.

type mbtStep struct {
	Lbl struct {
		A  string `json:"a"`
		V  string `json:"v"`
		C  string `json:"c"`
		K  string `json:"k"`
		Ok bool   `json:"ok"`
	} `json:"lbl"`
	St struct {
		Now     int64                      `json:"now"`
		Phase   map[string]string          `json:"phase"`
		Prov    json.RawMessage            `json:"prov"`
		ValKey  map[string]json.RawMessage `json:"valKey"`
		KeyVal  map[string]json.RawMessage `json:"keyVal"`
		ToPrune map[string]json.RawMessage `json:"toPrune"`
	} `json:"st"`
}

const mbtTick = 3600 // seconds of real time per model tick

func readSchedule(path string) ([]mbtStep, error) {
	f, err := os.Open(path)
	if err != nil {
		return nil, err
	}
	defer f.Close()
	var out []mbtStep
	sc := bufio.NewScanner(f)
	sc.Buffer(make([]byte, 1<<20), 1<<26)
	for sc.Scan() {
		if len(sc.Bytes()) == 0 {
			continue
		}
		var s mbtStep
		if err := json.Unmarshal(sc.Bytes(), &s); err != nil {
			return nil, err
		}
		out = append(out, s)
	}
	return out, sc.Err()
}

// strMap reads a TLA+ function with string domain ({} and <<>> both arrive as [] or {}).
func strMap(raw json.RawMessage) map[string]any {
	out := map[string]any{}
	var m map[string]string
	if json.Unmarshal(raw, &m) == nil {
		for k, v := range m {
			out[k] = v
		}
	}
	return out
}

// pruneList turns the model's set of [k, t] into the projection's format: [{t: real seconds, keys: sorted}] by time.
func pruneList(raw json.RawMessage, t0 int64) []any {
	var es []struct {
		K string `json:"k"`
		T int64  `json:"t"`
	}
	_ = json.Unmarshal(raw, &es)
	by := map[int64][]string{}
	for _, e := range es {
		by[e.T] = append(by[e.T], e.K)
	}
	var ts []int64
	for t := range by {
		ts = append(ts, t)
	}
	sort.Slice(ts, func(i, j int) bool { return ts[i] < ts[j] })
	out := []any{}
	for _, t := range ts {
		sort.Strings(by[t])
		ks := []any{}
		for _, k := range by[t] {
			ks = append(ks, k)
		}
		out = append(out, map[string]any{"t": t0 + t*mbtTick, "keys": ks})
	}
	return out
}

func (s *mbtStep) consState(c string, t0 int64) map[string]any {
	return map[string]any{"valKey": strMap(s.St.ValKey[c]), "keyVal": strMap(s.St.KeyVal[c]), "toPrune": pruneList(s.St.ToPrune[c], t0),
		"phase": s.St.Phase[c]}
}

func scMbtKeys(t *testing.T, w *World, sched []mbtStep) {
	// c0 is launched before the behaviour starts (LaunchedAtStart), c1 and c2 are registered only
	c0 := w.quickConsumer("mbta-1", 1, []string{"v1", "v2"}, nil)
	w.Block("p", 5, nil, map[string]any{"a": "CreateConsumer", "sender": "o1", "chain": "mbtb-1"}, map[string]any{"a": "CreateConsumer", "sender": "o1", "chain": "mbtc-1"})
	if c0 != "c0" || w.nextConsumerID() != 3 {
		panic("mbt: setup did not produce consumers c0, c1, c2")
	}
	// split into blocks: [begin steps (Launch / DeleteConsumer)] [messages] Tick
	type block struct {
		begin, msgs []mbtStep
		tick        *mbtStep
	}
	var blocks []block
	cur := block{}
	for i := range sched {
		s := sched[i]
		switch s.Lbl.A {
		case "Tick":
			cur.tick = &sched[i]
			blocks = append(blocks, cur)
			cur = block{}
		case "Launch", "DeleteConsumer":
			cur.begin = append(cur.begin, s)
		default:
			cur.msgs = append(cur.msgs, s)
		}
	}
	// (a trailing partial block is dropped: it has no end-of-block state to compare with)
	launchesIn := func(b *block) []string {
		var cs []string
		for _, s := range b.begin {
			if s.Lbl.A == "Launch" {
				cs = append(cs, s.Lbl.C)
			}
		}
		return cs
	}
	prep := func(next *block, at int64) []map[string]any {
		var txs []map[string]any
		for _, c := range launchesIn(next) {
			txs = append(txs, map[string]any{"a": "OptIn", "v": "v1", "c": c},
				map[string]any{"a": "UpdateConsumer", "sender": "o1", "c": c, "init": map[string]any{"initRev": 1, "spawn": at}})
		}
		return txs
	}
	// model block T runs at real time t0 + T*mbtTick
	t0 := w.now() + mbtTick
	if len(blocks) > 0 {
		w.Block("p", 5, nil, prep(&blocks[0], t0+5)...)
		t0 += 5
	}
	w.rec.emit("p", "MbtStart", map[string]any{"t0": t0, "tick": mbtTick, "blocks": len(blocks)}, nil, nil)
	for bi := range blocks {
		b := &blocks[bi]
		var txs []map[string]any
		for _, s := range b.msgs {
			m := map[string]any{"ok": s.Lbl.Ok}
			var a map[string]any
			switch s.Lbl.A {
			case "Assign":
				a = map[string]any{"a": "AssignKey", "v": s.Lbl.V, "c": s.Lbl.C, "key": s.Lbl.K}
				m["c"] = s.Lbl.C
				m["st"] = s.consState(s.Lbl.C, t0)
			case "Stop":
				a = map[string]any{"a": "RemoveConsumer", "sender": "o1", "c": s.Lbl.C}
				m["c"] = s.Lbl.C
				m["st"] = s.consState(s.Lbl.C, t0)
			case "CreateValidator":
				a = map[string]any{"a": "CreateValidator", "v": s.Lbl.V, "key": s.Lbl.K, "amt": 1500000}
			default:
				panic("mbt: unknown model action " + s.Lbl.A)
			}
			a["mbt"] = m
			txs = append(txs, a)
		}
		if bi+1 < len(blocks) {
			txs = append(txs, prep(&blocks[bi+1], t0+int64(bi+1)*mbtTick)...)
		}
		dt := int64(mbtTick)
		if bi == 0 {
			dt = t0 - w.now()
		}
		br := w.Block("p", dt, nil, txs...)
		if br.Err != "" {
			return
		}
		if got := w.now(); got != t0+int64(bi)*mbtTick {
			panic(fmt.Sprintf("mbt: block %d at %d, expected %d", bi, got, t0+int64(bi)*mbtTick))
		}
		exp := map[string]any{}
		for c := range b.tick.St.Phase {
			exp[c] = b.tick.consState(c, t0)
		}
		begin := []any{}
		for _, s := range b.begin {
			begin = append(begin, map[string]any{"a": s.Lbl.A, "c": s.Lbl.C})
		}
		w.rec.emit("p", "MbtTick", map[string]any{"block": bi, "now": b.tick.St.Now, "exp": exp, "begin": begin, "prov": strMap(b.tick.St.Prov)}, nil, nil)
	}
}

func init() {
	scenarios["mbt_keys"] = func(t *testing.T, seed int64) *World {
		dir := os.Getenv("VERIF_MBT_DIR")
		if dir == "" {
			t.Fatal("VERIF_MBT_DIR not set")
		}
		sched, err := readSchedule(filepath.Join(dir, fmt.Sprintf("sched_%d.ndjson", seed)))
		if err != nil {
			t.Fatalf("schedule %d: %v", seed, err)
		}
		cfg := DefaultConfig()
		cfg.NumVals = 3
		cfg.Tokens = []int64{3000000, 2000000, 1000000}
		cfg.MaxProvVals = 4
		cfg.Unbonding = 2 * mbtTick // U = 2 in cfg/MC_KeysGen.cfg
		cfg.ConsUnbonding = 2*mbtTick - 600
		cfg.CCVTimeout = 2 * mbtTick
		cfg.BlocksPerEpoch = 2
		w := NewWorld(t, cfg)
		w.rec.Start()
		w.rec.emit("p", "Scenario", map[string]any{"name": "mbt_keys", "variant": int(seed)}, nil, nil)
		w.Block("p", 5, nil)
		scMbtKeys(t, w, sched)
		return w
	}
}

// ---------------------------------------------------------------------------------------
// lifecycle family: behaviours of spec/MC_LifecycleGen.tla

type lifeRec struct {
	TopN  int64  `json:"topN"`
	Phase string `json:"phase"`
	Owner string `json:"owner"`
	Spawn int64  `json:"spawn"`
	Rm    int64  `json:"rm"`
	Infr  string `json:"infr"`
	Qd    string `json:"qd"`
	QdDue int64  `json:"qdDue"`
}

type lifeQ []struct {
	T   int64   `json:"t"`
	Ids []int64 `json:"ids"`
}

type lifeStep struct {
	Lbl struct {
		A  string `json:"a"`
		C  int64  `json:"c"`
		S  string `json:"s"`
		Ok bool   `json:"ok"`
		No string `json:"no"`
		Ns int64  `json:"ns"`
		Nt int64  `json:"nt"`
		Ni string `json:"ni"`
	} `json:"lbl"`
	St struct {
		Now     int64              `json:"now"`
		NextId  int64              `json:"nextId"`
		Cons    map[string]lifeRec `json:"cons"`
		LaunchQ lifeQ              `json:"launchQ"`
		RemoveQ lifeQ              `json:"removeQ"`
		InfrQ   lifeQ              `json:"infrQ"`
	} `json:"st"`
}

// the model's abstract infraction-parameter values
var lifeInfr = map[string]map[string]any{
	"a": {"ds": map[string]any{"frac": "0.050000000000000000", "jail": 86400, "tomb": true}, "dt": map[string]any{"frac": "0.000100000000000000", "jail": 600, "tomb": false}},
	"b": {"ds": map[string]any{"frac": "0.100000000000000000", "jail": 86400, "tomb": true}, "dt": map[string]any{"frac": "0.010000000000000000", "jail": 1200, "tomb": false}},
	"c": {"ds": map[string]any{"frac": "0.050000000000000000", "jail": 43200, "tomb": false}, "dt": map[string]any{"frac": "0.020000000000000000", "jail": 1300, "tomb": false}},
}

func readLifeSchedule(path string) ([]lifeStep, error) {
	f, err := os.Open(path)
	if err != nil {
		return nil, err
	}
	defer f.Close()
	var out []lifeStep
	sc := bufio.NewScanner(f)
	sc.Buffer(make([]byte, 1<<20), 1<<26)
	for sc.Scan() {
		if len(sc.Bytes()) == 0 {
			continue
		}
		var s lifeStep
		if err := json.Unmarshal(sc.Bytes(), &s); err != nil {
			return nil, err
		}
		out = append(out, s)
	}
	return out, sc.Err()
}

type lifeReplay struct {
	w  *World
	t0 int64
}

func (lr *lifeReplay) at(t int64) int64 {
	if t == 0 {
		return 0
	}
	return lr.t0 + t*mbtTick
}

func (lr *lifeReplay) params(v string) map[string]any {
	return lr.w.infr(*lr.w.infrOf(lifeInfr[v]))
}

// the model record in the shape of the projection (project.go projectConsumerRecord)
func (lr *lifeReplay) rec(r lifeRec) map[string]any {
	out := map[string]any{"phase": r.Phase, "owner": r.Owner, "spawn": lr.at(r.Spawn), "spawnSet": r.Spawn != 0, "topN": r.TopN,
		"infr": present(lr.params(r.Infr))}
	if r.Rm != 0 {
		out["removalT"] = present(lr.at(r.Rm))
	} else {
		out["removalT"] = absent()
	}
	if r.Qd != "none" {
		out["infrQd"] = present(map[string]any{"p": lr.params(r.Qd), "due": lr.at(r.QdDue)})
	} else {
		out["infrQd"] = absent()
	}
	return out
}

func (lr *lifeReplay) queue(q lifeQ) []any {
	out := []any{}
	for _, e := range q {
		ids := []any{}
		for _, id := range e.Ids {
			ids = append(ids, fmt.Sprintf("c%d", id))
		}
		out = append(out, map[string]any{"t": lr.at(e.T), "ids": ids})
	}
	return out
}

func (lr *lifeReplay) state(s *lifeStep) map[string]any {
	cons := map[string]any{}
	for id, r := range s.St.Cons {
		if r.Phase != "none" {
			cons["c"+id] = lr.rec(r)
		}
	}
	return map[string]any{"cons": cons, "nextId": s.St.NextId, "launchQ": lr.queue(s.St.LaunchQ), "removeQ": lr.queue(s.St.RemoveQ), "infrQ": lr.queue(s.St.InfrQ)}
}

func (lr *lifeReplay) msg(s *lifeStep) map[string]any {
	l := s.Lbl
	var a map[string]any
	switch l.A {
	case "Create":
		a = map[string]any{"a": "CreateConsumer", "sender": l.S, "chain": fmt.Sprintf("mbtl%d-1", l.C), "infr": lifeInfr["a"]}
		if l.Ns != 0 {
			a["init"] = map[string]any{"initRev": 1, "spawn": lr.at(l.Ns)}
		}
		if l.Nt != 0 {
			a["shaping"] = map[string]any{"topN": l.Nt}
		}
	case "Update":
		a = map[string]any{"a": "UpdateConsumer", "sender": l.S, "c": fmt.Sprintf("c%d", l.C)}
		if l.No != "none" {
			a["newOwner"] = l.No
		}
		if l.Ns != -1 {
			a["init"] = map[string]any{"initRev": 1, "spawn": lr.at(l.Ns)}
		}
		if l.Nt != -1 {
			a["shaping"] = map[string]any{"topN": l.Nt}
		}
		if l.Ni != "none" {
			a["infr"] = lifeInfr[l.Ni]
		}
	case "Remove":
		a = map[string]any{"a": "RemoveConsumer", "sender": l.S, "c": fmt.Sprintf("c%d", l.C)}
	default:
		panic("mbt: unknown model message " + l.A)
	}
	a["mbt"] = map[string]any{"ok": l.Ok, "life": lr.state(s)}
	return a
}

func scMbtLife(t *testing.T, w *World, sched []lifeStep) {
	type block struct {
		begin, msgs []*lifeStep
	}
	blocks := []block{{}}
	for i := range sched {
		s := &sched[i]
		cur := &blocks[len(blocks)-1]
		switch s.Lbl.A {
		case "Tick":
			blocks = append(blocks, block{begin: []*lifeStep{s}})
		case "LaunchOK", "LaunchFail", "RemoveDue", "ApplyInfraction":
			cur.begin = append(cur.begin, s)
		default:
			cur.msgs = append(cur.msgs, s)
		}
	}
	// the behaviour was written out at its last Tick: the BeginBlock steps of that last block are not part of it
	if n := len(blocks); n > 1 && len(blocks[n-1].begin) == 1 && len(blocks[n-1].msgs) == 0 {
		blocks = blocks[:n-1]
	}
	lr := &lifeReplay{w: w, t0: w.now() + mbtTick}
	w.rec.emit("p", "MbtStart", map[string]any{"t0": lr.t0, "tick": mbtTick, "blocks": len(blocks), "family": "lifecycle"}, nil, nil)
	for bi := range blocks {
		b := &blocks[bi]
		var txs, gov []map[string]any
		for _, s := range b.msgs {
			if s.Lbl.S == "gov" {
				gov = append(gov, lr.msg(s))
			} else {
				txs = append(txs, lr.msg(s))
			}
		}
		// a launch succeeds iff somebody opted in: arrange it right before the block in which the model launches
		if bi+1 < len(blocks) {
			for _, s := range blocks[bi+1].begin {
				if s.Lbl.A == "LaunchOK" {
					txs = append(txs, map[string]any{"a": "OptIn", "v": "v1", "c": fmt.Sprintf("c%d", s.Lbl.C)})
				}
			}
		}
		br := w.Block("p", lr.t0+int64(bi)*mbtTick-w.now(), nil, txs...)
		if br.Err != "" {
			return
		}
		for _, g := range gov {
			w.GovExec(g)
		}
		// the model state at the end of the block's messages, and the launch outcomes of its BeginBlock in order
		var last *lifeStep
		if n := len(b.msgs); n > 0 {
			last = b.msgs[n-1]
		} else if n := len(b.begin); n > 0 {
			last = b.begin[n-1]
		}
		begin := []any{}
		for _, s := range b.begin {
			if s.Lbl.A == "LaunchOK" || s.Lbl.A == "LaunchFail" {
				begin = append(begin, map[string]any{"a": "P" + s.Lbl.A, "c": fmt.Sprintf("c%d", s.Lbl.C)})
			}
		}
		args := map[string]any{"block": bi, "begin": begin}
		if last != nil {
			args["life"] = lr.state(last)
		}
		w.rec.emit("p", "MbtTick", args, nil, nil)
	}
}

func init() {
	scenarios["mbt_life"] = func(t *testing.T, seed int64) *World {
		dir := os.Getenv("VERIF_MBT_DIR")
		if dir == "" {
			t.Fatal("VERIF_MBT_DIR not set")
		}
		sched, err := readLifeSchedule(filepath.Join(dir, fmt.Sprintf("sched_%d.ndjson", seed)))
		if err != nil {
			t.Fatalf("schedule %d: %v", seed, err)
		}
		cfg := DefaultConfig()
		cfg.Unbonding = 2 * mbtTick // U = 2 in cfg/MC_LifecycleGen.cfg
		cfg.ConsUnbonding = 2*mbtTick - 600
		cfg.CCVTimeout = 2 * mbtTick
		cfg.BlocksPerEpoch = 3
		w := NewWorld(t, cfg)
		w.rec.Start()
		w.rec.emit("p", "Scenario", map[string]any{"name": "mbt_life", "variant": int(seed)}, nil, nil)
		w.Block("p", 5, nil)
		scMbtLife(t, w, sched)
		return w
	}
}
