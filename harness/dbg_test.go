package harness

import (
	"fmt"
	"os"
	"testing"
)

func TestDbgReplica(t *testing.T) {
	if os.Getenv("VERIF_DBG") == "" {
		t.Skip()
	}
	seed := envInt("VERIF_SEED0", 1)
	h := envInt("VERIF_H", 1)
	for r := 0; r < 2; r++ {
		recordingDefault = false
		obsDefault = true
		dbgDump = func(chain string, height int64, s string) {
			if chain == "p" && height == h {
				os.WriteFile(fmt.Sprintf("/tmp/dbg_res_%d.txt", r), []byte(s), 0o644)
			}
		}
		RunRandom(t, seed, "default", int(envInt("VERIF_STEPS", 70)))
	}
}
