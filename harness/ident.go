package harness

import (
	"encoding/binary"
	"encoding/hex"
	"fmt"
	"strings"

	cmtcrypto "github.com/cometbft/cometbft/crypto"
	cmted25519 "github.com/cometbft/cometbft/crypto/ed25519"
	cmtenc "github.com/cometbft/cometbft/crypto/encoding"
	cmtprotocrypto "github.com/cometbft/cometbft/proto/tendermint/crypto"
	cmttypes "github.com/cometbft/cometbft/types"

	cryptocodec "github.com/cosmos/cosmos-sdk/crypto/codec"
	"github.com/cosmos/cosmos-sdk/crypto/keys/secp256k1"
	cryptotypes "github.com/cosmos/cosmos-sdk/crypto/types"
	sdk "github.com/cosmos/cosmos-sdk/types"
)

// ConsKey is a consensus (ed25519) key the harness holds, known by a short name
// ("pk1" = provider key of v1, "k3" = extra key 3).
type ConsKey struct {
	Name string
	Priv cmted25519.PrivKey
	PV   cmttypes.MockPV
}

func (k *ConsKey) Pub() cmtcrypto.PubKey { return k.Priv.PubKey() }
func (k *ConsKey) Addr() sdk.ConsAddress { return sdk.ConsAddress(k.Priv.PubKey().Address()) }
func (k *ConsKey) Proto() cmtprotocrypto.PublicKey {
	pk, err := cmtenc.PubKeyToProto(k.Priv.PubKey())
	if err != nil {
		panic(err)
	}
	return pk
}
func (k *ConsKey) SDKPub() cryptotypes.PubKey {
	pk, err := cryptocodec.FromCmtPubKeyInterface(k.Priv.PubKey())
	if err != nil {
		panic(err)
	}
	return pk
}

// JSON form used by MsgAssignConsumerKey / MsgOptIn.
func (k *ConsKey) JSON() string {
	return fmt.Sprintf(`{"@type":"/cosmos.crypto.ed25519.PubKey","key":"%s"}`, b64(k.Priv.PubKey().Bytes()))
}

// Account is a secp256k1 account the harness can sign for.
type Account struct {
	Name string
	Priv *secp256k1.PrivKey
}

func (a *Account) Addr() sdk.AccAddress {
	if a.Priv == nil {
		return sdk.AccAddress(govAddrBytes)
	}
	return sdk.AccAddress(a.Priv.PubKey().Address())
}

var govAddrBytes []byte
func (a *Account) ValAddr() sdk.ValAddress { return sdk.ValAddress(a.Priv.PubKey().Address()) }

func seedBytes(tag string, i int) []byte {
	seed := []byte("VERIFHARNESSabcdefghijklmnopqrst") // 32 bytes
	copy(seed[0:4], []byte(tag+"...."))
	binary.LittleEndian.PutUint64(seed[4:12], uint64(i))
	return seed
}

func newConsKey(name, tag string, i int) *ConsKey {
	priv := cmted25519.GenPrivKeyFromSecret(seedBytes(tag, i))
	return &ConsKey{Name: name, Priv: priv, PV: cmttypes.NewMockPVWithParams(priv, false, false)}
}

func newAccount(name, tag string, i int) *Account {
	return &Account{Name: name, Priv: secp256k1.GenPrivKeyFromSecret(seedBytes(tag, i))}
}

// Names holds every identity of a run and the reverse tables used by the projection.
type Names struct {
	Keys      map[string]*ConsKey // by name
	KeyByAddr map[string]string   // hex(consaddr) -> name
	Accts     map[string]*Account // by name
	AcctByAdr map[string]string   // bech32 acc addr -> name
	ValByOp   map[string]string   // bech32 valoper -> "v1"
	ValByCons map[string]string   // hex(provider cons addr) -> "v1"
	ValNames  []string            // creation order
	Gov       string              // governance authority address
	Signers   map[string]cmttypes.PrivValidator
}

func newNames() *Names {
	return &Names{
		Keys: map[string]*ConsKey{}, KeyByAddr: map[string]string{},
		Accts: map[string]*Account{}, AcctByAdr: map[string]string{},
		ValByOp: map[string]string{}, ValByCons: map[string]string{},
	}
}

func (n *Names) addKey(k *ConsKey) *ConsKey {
	n.Keys[k.Name] = k
	n.KeyByAddr[hex.EncodeToString(k.Addr())] = k.Name
	if n.Signers != nil {
		n.Signers[k.Pub().Address().String()] = k.PV
	}
	return k
}

func (n *Names) addAcct(a *Account) *Account {
	n.Accts[a.Name] = a
	n.AcctByAdr[a.Addr().String()] = a.Name
	return a
}

// keyName maps a consensus address (bytes) to the harness name, or "x<hex8>" if unknown.
func (n *Names) keyName(addr []byte) string {
	if nm, ok := n.KeyByAddr[hex.EncodeToString(addr)]; ok {
		return nm
	}
	return "x" + hex.EncodeToString(addr)[:8]
}

func (n *Names) keyNameOfPub(pk cmtprotocrypto.PublicKey) string {
	p, err := cmtenc.PubKeyFromProto(pk)
	if err != nil {
		return "xbadkey"
	}
	return n.keyName(p.Address())
}

func (n *Names) acctName(addr string) string {
	if addr == n.Gov {
		return "gov"
	}
	if nm, ok := n.AcctByAdr[addr]; ok {
		return nm
	}
	if addr == "" {
		return ""
	}
	return "a:" + addr[len(addr)-6:]
}

func (n *Names) valNameByCons(addr []byte) string {
	if nm, ok := n.ValByCons[hex.EncodeToString(addr)]; ok {
		return nm
	}
	return "w" + hex.EncodeToString(addr)[:8]
}

func consIDName(id string) string { return "c" + id }
func consIDOf(name string) string { return strings.TrimPrefix(name, "c") }
