package harness

import (
	"fmt"
	"testing"

	providerkeeper "github.com/cosmos/interchain-security/v7/x/ccv/provider/keeper"
	providertypes "github.com/cosmos/interchain-security/v7/x/ccv/provider/types"
)

// Vector corpus (C04): the real exported shaping functions are run on a COMPLETE small input domain and every
// (input, output) pair is recorded as an event; TLC checks the documented postconditions on each.

func multisets(vals []int64, maxLen int) [][]int64 {
	var out [][]int64
	var rec func(start int, cur []int64)
	rec = func(start int, cur []int64) {
		if len(cur) > 0 {
			out = append(out, append([]int64{}, cur...))
		}
		if len(cur) == maxLen {
			return
		}
		for i := start; i < len(vals); i++ {
			rec(i, append(cur, vals[i]))
		}
	}
	rec(0, nil)
	return out
}

func init() {
	scenarios["vectors"] = func(t *testing.T, seed int64) *World {
		w := NewWorld(t, DefaultConfig())
		w.rec.Start()
		pk := w.P.PApp.ProviderKeeper
		ctx, _ := w.P.GetContext().CacheContext()
		domains := [][]int64{{1, 2, 3, 4, 6, 10, 25, 60}, {1, 5, 7, 100, 1000, 99999}, {3, 3, 3, 8, 50, 51, 49, 200}}
		dom := domains[int(seed)%len(domains)]
		pcts := []uint32{1, 5, 10, 20, 25, 33, 34, 50, 51, 99, 100}
		names := []string{"a", "b", "c", "d", "e"}
		for _, ms := range multisets(dom, 5) {
			// power cap
			for _, p := range pcts {
				var in []providertypes.ConsensusValidator
				inMap := map[string]any{}
				for i, pw := range ms {
					in = append(in, providertypes.ConsensusValidator{ProviderConsAddr: []byte(names[i]), Power: pw})
					inMap[names[i]] = pw
				}
				out := providerkeeper.NoMoreThanPercentOfTheSum(in, p)
				outMap := map[string]any{}
				for _, v := range out {
					outMap[string(v.ProviderConsAddr)] = v.Power
				}
				w.rec.emit("v", "VecPowerCap", map[string]any{"p": int(p), "in": inMap}, map[string]any{"out": outMap, "n": len(out)}, nil)
			}
			// validator-set cap: input is ordered (priority first, then by power) by the caller
			for cap := uint32(0); cap <= 5; cap++ {
				var in []providertypes.ConsensusValidator
				seq := []any{}
				for i := len(ms) - 1; i >= 0; i-- { // descending power
					in = append(in, providertypes.ConsensusValidator{ProviderConsAddr: []byte(names[i]), Power: ms[i]})
					seq = append(seq, names[i])
				}
				for _, topN := range []uint32{0, 60} {
					out := pk.CapValidatorSet(ctx, providertypes.PowerShapingParameters{ValidatorSetCap: cap, Top_N: topN}, in)
					outSeq := []any{}
					for _, v := range out {
						outSeq = append(outSeq, string(v.ProviderConsAddr))
					}
					w.rec.emit("v", "VecSetCap", map[string]any{"cap": int(cap), "topN": int(topN), "in": seq}, map[string]any{"out": outSeq}, nil)
				}
			}
		}
		// extreme values: totals near CometBFT's limit (~1.15e18); handed to TLC as base-10^6 limbs
		if seed == 0 {
			bigDom := []int64{100000000000000000, 200000000000000000, 300000000000000001, 50000000000000000, 99999999999999999, 7}
			for _, ms := range multisets(bigDom, 4) {
				var tot int64
				for _, x := range ms {
					tot += x
				}
				if tot > 1100000000000000000 {
					continue
				}
				for _, p := range []uint32{1, 10, 25, 30, 34, 40, 50, 75, 99, 100} {
					var in []providertypes.ConsensusValidator
					inMap := map[string]any{}
					for i, pw := range ms {
						in = append(in, providertypes.ConsensusValidator{ProviderConsAddr: []byte(names[i]), Power: pw})
						inMap[names[i]] = limbs(pw)
					}
					out := providerkeeper.NoMoreThanPercentOfTheSum(in, p)
					outMap := map[string]any{}
					negs := []any{}
					for _, v := range out {
						pw := v.Power
						if pw < 0 {
							negs = append(negs, string(v.ProviderConsAddr))
							pw = -pw
						}
						outMap[string(v.ProviderConsAddr)] = limbs(pw)
					}
					w.rec.emit("v", "VecPowerCapBig", map[string]any{"p": int(p), "in": inMap}, map[string]any{"out": outMap, "negs": negs}, nil)
				}
			}
		}
		_ = fmt.Sprint
		return w
	}
}

// limbs splits a non-negative number into four base-10^6 limbs, least significant first.
func limbs(x int64) []any {
	out := make([]any, 4)
	for i := 0; i < 4; i++ {
		out[i] = x % 1000000
		x /= 1000000
	}
	return out
}
