package harness

import (
	"strings"
	"crypto/sha256"
	"encoding/hex"
	"fmt"
	"sort"
	"strconv"

	sdkmath "cosmossdk.io/math"
	storetypes "cosmossdk.io/store/types"

	sdk "github.com/cosmos/cosmos-sdk/types"
	authtypes "github.com/cosmos/cosmos-sdk/x/auth/types"
	distrtypes "github.com/cosmos/cosmos-sdk/x/distribution/types"
	stakingtypes "github.com/cosmos/cosmos-sdk/x/staking/types"

	transfertypes "github.com/cosmos/ibc-go/v10/modules/apps/transfer/types"
	channeltypes "github.com/cosmos/ibc-go/v10/modules/core/04-channel/types"
	ibcexported "github.com/cosmos/ibc-go/v10/modules/core/exported"

	consumertypes "github.com/cosmos/interchain-security/v7/x/ccv/consumer/types"
	providertypes "github.com/cosmos/interchain-security/v7/x/ccv/provider/types"
	ccvtypes "github.com/cosmos/interchain-security/v7/x/ccv/types"
)

var phaseNames = map[providertypes.ConsumerPhase]string{
	providertypes.CONSUMER_PHASE_UNSPECIFIED: "none",
	providertypes.CONSUMER_PHASE_REGISTERED:  "registered",
	providertypes.CONSUMER_PHASE_INITIALIZED: "initialized",
	providertypes.CONSUMER_PHASE_LAUNCHED:    "launched",
	providertypes.CONSUMER_PHASE_STOPPED:     "stopped",
	providertypes.CONSUMER_PHASE_DELETED:     "deleted",
}

func clampInt(x int64) int64 {
	if x > TimeClamp {
		return TimeClamp
	}
	return x
}
func absent() map[string]any            { return map[string]any{"present": false} }
func present(v any) map[string]any      { return map[string]any{"present": true, "v": v} }
func strs(xs []string) []any            { r := make([]any, 0, len(xs)); for _, x := range xs { r = append(r, x) }; return r }
func sortedStrs(xs []string) []any      { sort.Strings(xs); return strs(xs) }

func (w *World) valUpdatesMap(ups []ccvUpdate) map[string]any {
	m := map[string]any{}
	for _, u := range ups {
		m[u.key] = u.power
	}
	return m
}

type ccvUpdate struct {
	key   string
	power int64
}

// projectProvider reads the provider's state through ctx and returns the abstract state (DESIGN Appendix C.3).
func (w *World) projectProvider(c *Chain, ctx sdk.Context) map[string]any {
	app := c.PApp
	pk := app.ProviderKeeper
	sk := app.StakingKeeper
	n := w.N
	s := map[string]any{}
	s["h"] = ctx.BlockHeight()
	s["t"] = w.secs(ctx.BlockTime())

	// ---- staking / slashing (environment) ----
	vals := map[string]any{}
	allVals, _ := sk.GetAllValidators(ctx)
	for _, v := range allVals {
		name, ok := n.ValByOp[v.OperatorAddress]
		if !ok {
			continue
		}
		consAddr, _ := v.GetConsAddr()
		valAddr, _ := sdk.ValAddressFromBech32(v.OperatorAddress)
		lp, err := sk.GetLastValidatorPower(ctx, valAddr)
		if err != nil {
			lp = 0
		}
		tomb := app.SlashingKeeper.IsTombstoned(ctx, consAddr)
		var ju int64
		if info, err := app.SlashingKeeper.GetValidatorSigningInfo(ctx, consAddr); err == nil {
			ju = w.secs(info.JailedUntil)
		}
		st := "unbonded"
		switch v.Status {
		case stakingtypes.Bonded:
			st = "bonded"
		case stakingtypes.Unbonding:
			st = "unbonding"
		}
		// tokens still unbonding / redelegating away from this validator
		var ubd int64
		ubds, _ := sk.GetUnbondingDelegationsFromValidator(ctx, valAddr)
		for _, u := range ubds {
			for _, e := range u.Entries {
				ubd += e.Balance.Int64()
			}
		}
		reds, _ := sk.GetRedelegationsFromSrcValidator(ctx, valAddr)
		for _, r := range reds {
			for _, e := range r.Entries {
				ubd += e.InitialBalance.Int64()
			}
		}
		vals[name] = map[string]any{
			"tok": v.Tokens.Int64(), "st": st, "jailed": v.Jailed, "tomb": tomb, "ju": ju,
			"lp": lp, "pk": n.keyName(consAddr), "ubd": ubd,
		}
	}
	s["vals"] = vals
	// staking power-index order of bonded validators
	var order []any
	if bonded, err := sk.GetBondedValidatorsByPower(ctx); err == nil {
		for _, v := range bonded {
			if nm, ok := n.ValByOp[v.OperatorAddress]; ok {
				order = append(order, nm)
			}
		}
	}
	s["order"] = orEmpty(order)
	// the staking views the provider module offers to governance and mint (staking_keeper_interface.go)
	var iter []any
	_ = pk.IterateBondedValidatorsByPower(ctx, func(_ int64, v stakingtypes.ValidatorI) bool {
		if nm, ok := n.ValByOp[v.GetOperator()]; ok {
			iter = append(iter, nm)
		} else {
			iter = append(iter, "unknown")
		}
		return false
	})
	views := map[string]any{"iter": orEmpty(iter), "total": int64(-1), "ratioTotal": int64(-1)}
	if tot, err := pk.TotalBondedTokens(ctx); err == nil {
		views["total"] = clampInt(tot.Int64())
	}
	// BondedRatio is reported as the token amount it stands for (ratio x supply, rounded): TLC integers are 32-bit
	if ratio, err := pk.BondedRatio(ctx); err == nil {
		if sup, err := pk.StakingTokenSupply(ctx); err == nil {
			views["ratioTotal"] = clampInt(ratio.MulInt(sup).RoundInt().Int64())
		}
	}
	s["views"] = views
	if ub, err := sk.UnbondingTime(ctx); err == nil {
		s["U"] = int64(ub.Seconds())
	}

	// ---- provider consensus / epochs / throttle ----
	lps := map[string]any{}
	if set, err := pk.GetLastProviderConsensusValSet(ctx); err == nil {
		for _, v := range set {
			lps[n.keyNameOfPub(*v.PublicKey)] = v.Power
		}
	}
	s["lps"] = lps
	s["M"] = clampInt(pk.GetMaxProviderConsensusValidators(ctx)) // (TLC integers are 32-bit; larger values mean "no bound")
	s["vscId"] = int64(pk.GetValidatorSetUpdateId(ctx))
	v2h := map[string]any{}
	for _, e := range pk.GetAllValsetUpdateBlockHeights(ctx) {
		v2h[strconv.FormatUint(e.ValsetUpdateId, 10)] = int64(e.Height)
	}
	s["v2h"] = v2h
	s["bpe"] = pk.GetBlocksPerEpoch(ctx)
	s["meter"] = pk.GetSlashMeter(ctx).Int64()
	s["replAt"] = w.secs(pk.GetSlashMeterReplenishTimeCandidate(ctx))
	s["allow"] = pk.GetSlashMeterAllowance(ctx).Int64()
	s["replPer"] = int64(pk.GetSlashMeterReplenishPeriod(ctx).Seconds())
	if tp, err := pk.GetLastTotalProviderConsensusPower(ctx); err == nil {
		s["totPow"] = tp.Int64()
	}
	nextID, _ := pk.GetConsumerId(ctx)
	s["nextId"] = int64(nextID)
	s["launchQ"] = w.timeQueue(ctx, c, providertypes.SpawnTimeToConsumerIdsKeyPrefix())
	s["removeQ"] = w.timeQueue(ctx, c, providertypes.RemovalTimeToConsumerIdsKeyPrefix())
	s["infrQ"] = w.timeQueue(ctx, c, providertypes.InfractionScheduledTimeToConsumerIdsKeyPrefix())
	s["regDenoms"] = sortedStrs(pk.GetAllConsumerRewardDenoms(ctx))
	pool := map[string]any{}
	for _, coin := range pk.GetConsumerRewardsPool(ctx) {
		pool[coin.Denom] = coin.Amount.Int64()
	}
	s["pool"] = pool
	s["epochsToReward"] = pk.GetNumberOfEpochsToStartReceivingRewards(ctx)
	// distribution view for reward denoms: outstanding rewards per validator, community pool, total supply -- integer
	// parts. The bond denom is left out (inflation moves it every block) unless it is itself a registered reward denom.
	skipDenom := func(d string) bool {
		if d != BondDenom {
			return false
		}
		for _, r := range pk.GetAllConsumerRewardDenoms(ctx) {
			if r == BondDenom {
				return false
			}
		}
		return true
	}
	outst := map[string]any{}
	for _, v := range allVals {
		name, ok := n.ValByOp[v.OperatorAddress]
		if !ok {
			continue
		}
		valAddr, _ := sdk.ValAddressFromBech32(v.OperatorAddress)
		m := map[string]any{}
		if or, err := app.DistrKeeper.GetValidatorOutstandingRewards(ctx, valAddr); err == nil {
			for _, dc := range or.Rewards {
				if !skipDenom(dc.Denom) {
					m[dc.Denom] = clampInt(dc.Amount.TruncateInt().Int64())
				}
			}
		}
		outst[name] = m
	}
	s["outst"] = outst
	cacc := map[string]any{}
	for _, v := range allVals {
		name, ok := n.ValByOp[v.OperatorAddress]
		if !ok {
			continue
		}
		valAddr, _ := sdk.ValAddressFromBech32(v.OperatorAddress)
		m := map[string]any{}
		if ac, err := app.DistrKeeper.GetValidatorAccumulatedCommission(ctx, valAddr); err == nil {
			for _, dc := range ac.Commission {
				if !skipDenom(dc.Denom) {
					m[dc.Denom] = clampInt(dc.Amount.TruncateInt().Int64())
				}
			}
		}
		cacc[name] = m
	}
	s["commAcc"] = cacc
	comm := map[string]any{}
	if fp, err := app.DistrKeeper.FeePool.Get(ctx); err == nil {
		for _, dc := range fp.CommunityPool {
			if !skipDenom(dc.Denom) {
				comm[dc.Denom] = clampInt(dc.Amount.TruncateInt().Int64())
			}
		}
	}
	s["community"] = comm
	supply := map[string]any{}
	app.BankKeeper.IterateTotalSupply(ctx, func(c sdk.Coin) bool {
		if c.Denom != BondDenom {
			supply[c.Denom] = c.Amount.Int64()
		}
		return false
	})
	s["supply"] = supply
	dm := map[string]any{}
	for _, coin := range app.BankKeeper.GetAllBalances(ctx, app.AccountKeeper.GetModuleAddress(distrtypes.ModuleName)) {
		if coin.Denom != BondDenom {
			dm[coin.Denom] = coin.Amount.Int64()
		}
	}
	s["distrBal"] = dm

	// ---- per consumer ----
	cons := map[string]any{}
	for id := uint64(0); id < nextID; id++ {
		cid := strconv.FormatUint(id, 10)
		cons[consIDName(cid)] = w.projectConsumerRecord(c, ctx, cid)
	}
	s["cons"] = cons

	// reverse indices (all entries)
	cl2c := map[string]any{}
	ch2c := map[string]any{}
	for _, e := range pk.GetAllChannelToConsumers(ctx) {
		ch2c[e.ChannelId] = consIDName(e.ConsumerId)
	}
	s["ch2c"] = ch2c
	store := ctx.KVStore(app.GetKey(providertypes.StoreKey))
	it := storetypes.KVStorePrefixIterator(store, []byte{53})
	for ; it.Valid(); it.Next() {
		k := it.Key()
		if len(k) < 9 {
			continue
		}
		cl2c[string(k[9:])] = consIDName(string(it.Value()))
	}
	it.Close()
	s["cl2c"] = cl2c

	s["dig"] = w.digests(c, ctx)
	// IBC objects on the provider
	clients := []string{}
	app.GetIBCKeeper().ClientKeeper.IterateClientStates(ctx, nil, func(id string, _ ibcexported.ClientState) bool {
		clients = append(clients, id)
		return false
	})
	s["clients"] = sortedStrs(clients)
	chans := map[string]any{}
	for _, ch := range app.GetIBCKeeper().ChannelKeeper.GetAllChannels(ctx) {
		if ch.PortId != ccvtypes.ProviderPortID {
			continue
		}
		conn := ""
		if len(ch.ConnectionHops) > 0 {
			conn = ch.ConnectionHops[0]
		}
		cl := ""
		if ce, ok := app.GetIBCKeeper().ConnectionKeeper.GetConnection(ctx, conn); ok {
			cl = ce.ClientId
		}
		chans[ch.ChannelId] = map[string]any{"state": ch.State.String(), "order": ch.Ordering.String(), "conn": conn, "client": cl}
	}
	s["chans"] = chans
	conns := map[string]any{}
	for _, ce := range app.GetIBCKeeper().ConnectionKeeper.GetAllConnections(ctx) {
		conns[ce.Id] = ce.ClientId
	}
	s["conns"] = conns
	return s
}

func orEmpty(xs []any) []any {
	if xs == nil {
		return []any{}
	}
	return xs
}

func (w *World) timeQueue(ctx sdk.Context, c *Chain, prefix byte) []any {
	store := ctx.KVStore(c.PApp.GetKey(providertypes.StoreKey))
	it := storetypes.KVStorePrefixIterator(store, []byte{prefix})
	defer it.Close()
	out := []any{}
	for ; it.Valid(); it.Next() {
		ts, err := providertypes.ParseTime(prefix, it.Key())
		if err != nil {
			continue
		}
		var ids providertypes.ConsumerIds
		if err := ids.Unmarshal(it.Value()); err != nil {
			continue
		}
		names := []any{}
		for _, id := range ids.Ids {
			names = append(names, consIDName(id))
		}
		out = append(out, map[string]any{"t": w.secs(ts), "ids": names})
	}
	return out
}

func fracStr(d interface{ String() string }) string { return d.String() }

func (w *World) slashJail(p *providertypes.SlashJailParameters) map[string]any {
	if p == nil {
		return map[string]any{"frac": "nil", "jail": 0, "tomb": false, "fracBp": 0}
	}
	jail := int64(p.JailDuration.Seconds())
	if jail > TimeClamp {
		jail = TimeClamp // "forever": anything beyond what 32-bit TLC integers can hold
	}
	return map[string]any{"frac": p.SlashFraction.String(), "jail": jail, "tomb": p.Tombstone, "fracBp": p.SlashFraction.MulInt64(10000).TruncateInt64()}
}

func (w *World) infr(p providertypes.InfractionParameters) map[string]any {
	return map[string]any{"ds": w.slashJail(p.DoubleSign), "dt": w.slashJail(p.Downtime)}
}

func (w *World) projectConsumerRecord(c *Chain, ctx sdk.Context, cid string) map[string]any {
	pk := c.PApp.ProviderKeeper
	n := w.N
	r := map[string]any{}
	r["phase"] = phaseNames[pk.GetConsumerPhase(ctx, cid)]
	owner, _ := pk.GetConsumerOwnerAddress(ctx, cid)
	r["owner"] = n.acctName(owner)
	chainID, _ := pk.GetConsumerChainId(ctx, cid)
	r["chain"] = chainID
	if ip, err := pk.GetConsumerInitializationParameters(ctx, cid); err == nil {
		r["spawn"] = w.secs(ip.SpawnTime)
		r["spawnSet"] = !ip.SpawnTime.IsZero()
		r["initRev"] = int64(ip.InitialHeight.RevisionNumber)
		r["initH"] = int64(ip.InitialHeight.RevisionHeight)
		r["conn"] = ip.ConnectionId
	} else {
		r["spawn"] = 0
		r["spawnSet"] = false
		r["initRev"] = 0
		r["initH"] = 0
		r["conn"] = ""
	}
	if ps, err := pk.GetConsumerPowerShapingParameters(ctx, cid); err == nil {
		r["topN"] = int64(ps.Top_N)
		r["valCap"] = int64(ps.ValidatorSetCap)
		r["powCap"] = int64(ps.ValidatorsPowerCap)
		r["minStake"] = int64(ps.MinStake)
		r["allowInactive"] = ps.AllowInactiveVals
	} else {
		r["topN"], r["valCap"], r["powCap"], r["minStake"], r["allowInactive"] = 0, 0, 0, 0, false
	}
	consList := func(addrs []providertypes.ProviderConsAddress) []any {
		var out []string
		for _, a := range addrs {
			out = append(out, n.valNameByCons(a.ToSdkConsAddr()))
		}
		return sortedStrs(out)
	}
	r["allowL"] = consList(pk.GetAllowList(ctx, cid))
	r["denyL"] = consList(pk.GetDenyList(ctx, cid))
	r["prioL"] = consList(pk.GetPriorityList(ctx, cid))
	r["optedIn"] = consList(pk.GetAllOptedIn(ctx, cid))
	if mp, ok := pk.GetMinimumPowerInTopN(ctx, cid); ok {
		r["minPow"] = present(mp)
	} else {
		r["minPow"] = absent()
	}
	cvs := map[string]any{}
	if set, err := pk.GetConsumerValSet(ctx, cid); err == nil {
		for _, v := range set {
			cvs[n.valNameByCons(v.ProviderConsAddr)] = map[string]any{
				"key": n.keyNameOfPub(*v.PublicKey), "pow": v.Power, "join": v.JoinHeight}
		}
	}
	r["cvs"] = cvs
	valKey := map[string]any{}
	for _, e := range pk.GetAllValidatorConsumerPubKeys(ctx, &cid) {
		valKey[n.valNameByCons(e.ProviderAddr)] = n.keyNameOfPub(*e.ConsumerKey)
	}
	r["valKey"] = valKey
	keyVal := map[string]any{}
	for _, e := range pk.GetAllValidatorsByConsumerAddr(ctx, &cid) {
		keyVal[n.keyName(e.ConsumerAddr)] = n.valNameByCons(e.ProviderAddr)
	}
	r["keyVal"] = keyVal
	toPrune := []any{}
	for _, e := range pk.GetAllConsumerAddrsToPrune(ctx, cid) {
		ks := []string{}
		if e.ConsumerAddrs != nil {
			for _, a := range e.ConsumerAddrs.Addresses {
				ks = append(ks, n.keyName(a))
			}
		}
		toPrune = append(toPrune, map[string]any{"t": w.secs(e.PruneTs), "keys": sortedStrs(ks)})
	}
	r["toPrune"] = toPrune
	pend := []any{}
	for _, p := range pk.GetPendingVSCPackets(ctx, cid) {
		pend = append(pend, w.vscPacket(p))
	}
	r["pendingVSC"] = pend
	acks := []any{}
	for _, a := range pk.GetSlashAcks(ctx, cid) {
		acks = append(acks, w.bech32KeyName(a))
	}
	r["slashAcks"] = acks
	if cl, ok := pk.GetConsumerClientId(ctx, cid); ok {
		r["client"] = cl
	} else {
		r["client"] = ""
	}
	if ch, ok := pk.GetConsumerIdToChannelId(ctx, cid); ok {
		r["chan"] = ch
	} else {
		r["chan"] = ""
	}
	if h, ok := pk.GetInitChainHeight(ctx, cid); ok {
		r["initChainH"] = present(int64(h))
	} else {
		r["initChainH"] = absent()
	}
	if rt, err := pk.GetConsumerRemovalTime(ctx, cid); err == nil {
		r["removalT"] = present(w.secs(rt))
	} else {
		r["removalT"] = absent()
	}
	r["minEvH"] = int64(pk.GetEquivocationEvidenceMinHeight(ctx, cid))
	if ip, err := pk.GetInfractionParameters(ctx, cid); err == nil {
		r["infr"] = present(w.infr(ip))
	} else {
		r["infr"] = absent()
	}
	if qp, err := pk.GetQueuedInfractionParameters(ctx, cid); err == nil {
		due := int64(0)
		if t, err := pk.GetConsumerInfractionUpdateTime(ctx, cid); err == nil {
			due = w.secs(t)
		}
		r["infrQd"] = present(map[string]any{"p": w.infr(qp), "due": due})
	} else {
		r["infrQd"] = absent()
	}
	if gen, ok := pk.GetConsumerGenesis(ctx, cid); ok {
		gs := map[string]any{}
		for _, u := range gen.Provider.InitialValSet {
			gs[n.keyNameOfPub(u.PubKey)] = u.Power
		}
		r["genesis"] = present(map[string]any{"set": gs, "preCCV": gen.PreCCV, "retry": int64(gen.Params.RetryDelayPeriod.Seconds())})
	} else {
		r["genesis"] = absent()
	}
	denoms, _ := pk.GetAllowlistedRewardDenoms(ctx, cid)
	r["allowDenoms"] = sortedStrs(append([]string{}, denoms...))
	comm := map[string]any{}
	commBp := map[string]any{}
	for _, a := range pk.GetAllCommissionRateValidators(ctx, cid) {
		if rate, ok := pk.GetConsumerCommissionRate(ctx, cid, a); ok {
			comm[n.valNameByCons(a.ToSdkConsAddr())] = rate.String()
			commBp[n.valNameByCons(a.ToSdkConsAddr())] = rate.MulInt64(10000).TruncateInt64()
		}
	}
	r["commission"] = comm
	r["commissionBp"] = commBp
	// reward credits per denom: [integer part, hasFraction]
	credit := map[string]any{}
	store := ctx.KVStore(c.PApp.GetKey(providertypes.StoreKey))
	pre := providertypes.StringIdWithLenKey(providertypes.ConsumerRewardsAllocationByDenomKeyPrefix(), cid)
	it := storetypes.KVStorePrefixIterator(store, pre)
	for ; it.Valid(); it.Next() {
		denom := string(it.Key()[len(pre):])
		var alloc providertypes.ConsumerRewardsAllocation
		if err := alloc.Unmarshal(it.Value()); err != nil {
			continue
		}
		for _, dc := range alloc.Rewards {
			ip := dc.Amount.TruncateInt()
			frac := 0
			if !dc.Amount.Sub(dc.Amount.TruncateDec()).IsZero() {
				frac = 1
			}
			credit[denom] = []any{ip.Int64(), frac}
		}
	}
	it.Close()
	r["credit"] = credit
	return r
}

func (w *World) bech32KeyName(a string) string {
	addr, err := ccvtypes.GetConsAddrFromBech32(a)
	if err != nil {
		return "bad:" + a
	}
	return w.N.keyName(addr)
}

func (w *World) vscPacket(p ccvtypes.ValidatorSetChangePacketData) map[string]any {
	ups := map[string]any{}
	seq := []any{}
	for _, u := range p.ValidatorUpdates {
		nm := w.N.keyNameOfPub(u.PubKey)
		ups[nm] = u.Power
		seq = append(seq, []any{nm, u.Power})
	}
	acks := []any{}
	for _, a := range p.SlashAcks {
		acks = append(acks, w.bech32KeyName(a))
	}
	return map[string]any{"id": int64(p.ValsetUpdateId), "ups": ups, "seq": seq, "acks": acks}
}

// ---------------------------------------------------------------------------------------
// consumer chain projection

func (w *World) projectConsumer(c *Chain, ctx sdk.Context) map[string]any {
	ck := c.CApp.ConsumerKeeper
	n := w.N
	s := map[string]any{}
	s["h"] = ctx.BlockHeight()
	s["t"] = w.secs(ctx.BlockTime())
	ccv := map[string]any{}
	for _, v := range ck.GetAllCCValidator(ctx) {
		ccv[n.keyName(v.Address)] = v.Power
	}
	s["ccv"] = ccv
	pc := map[string]any{}
	pcSeq := []any{}
	if data, ok := ck.GetPendingChanges(ctx); ok {
		for _, u := range data.ValidatorUpdates {
			nm := n.keyNameOfPub(u.PubKey)
			pc[nm] = u.Power
			pcSeq = append(pcSeq, []any{nm, u.Power})
		}
		s["hasPC"] = true
	} else {
		s["hasPC"] = false
	}
	s["pc"] = pc
	s["pcSeq"] = pcSeq
	h2id := map[string]any{}
	for _, e := range ck.GetAllHeightToValsetUpdateIDs(ctx) {
		h2id[strconv.FormatUint(e.Height, 10)] = int64(e.ValsetUpdateId)
	}
	s["h2id"] = h2id
	outst := []string{}
	for _, o := range ck.GetAllOutstandingDowntimes(ctx) {
		if addr, err := sdk.ConsAddressFromBech32(o.ValidatorConsensusAddress); err == nil {
			outst = append(outst, n.keyName(addr))
		}
	}
	s["outstanding"] = sortedStrs(outst)
	pend := []any{}
	for _, p := range ck.GetPendingPackets(ctx) {
		switch p.Type {
		case ccvtypes.SlashPacket:
			sp := p.GetSlashPacketData()
			inf := "downtime"
			if sp.Infraction == stakingtypes.Infraction_INFRACTION_DOUBLE_SIGN {
				inf = "doublesign"
			}
			pend = append(pend, map[string]any{"type": "slash", "key": n.keyName(sp.Validator.Address), "id": int64(sp.ValsetUpdateId), "inf": inf})
		case ccvtypes.VscMaturedPacket:
			pend = append(pend, map[string]any{"type": "matured", "key": "", "id": int64(p.GetVscMaturedPacketData().ValsetUpdateId), "inf": ""})
		default:
			pend = append(pend, map[string]any{"type": "other", "key": "", "id": 0, "inf": ""})
		}
	}
	s["pending"] = pend
	if rec, found := ck.GetSlashRecord(ctx); found {
		s["slashRec"] = present(map[string]any{"waiting": rec.WaitingOnReply, "sent": w.secs(rec.SendTime)})
	} else {
		s["slashRec"] = absent()
	}
	s["retryDelay"] = int64(ck.GetRetryDelayPeriod(ctx).Seconds())
	if ch, ok := ck.GetProviderChannel(ctx); ok {
		s["provChan"] = ch
	} else {
		s["provChan"] = ""
	}
	if cl, ok := ck.GetProviderClientID(ctx); ok {
		s["provClient"] = cl
	} else {
		s["provClient"] = ""
	}
	s["xferChan"] = ck.GetDistributionTransmissionChannel(ctx)
	cconns := map[string]any{}
	for _, ce := range c.CApp.GetIBCKeeper().ConnectionKeeper.GetAllConnections(ctx) {
		cconns[ce.Id] = ce.ClientId
	}
	s["conns"] = cconns
	// balances of the fee accounts
	bal := map[string]any{}
	for nm, mod := range map[string]string{"fee": authtypes.FeeCollectorName, "redist": consumertypes.ConsumerRedistributeName, "toSend": consumertypes.ConsumerToSendToProviderName} {
		b := map[string]any{}
		addr := c.CApp.AccountKeeper.GetModuleAddress(mod)
		for _, coin := range c.CApp.BankKeeper.GetAllBalances(ctx, addr) {
			b[coin.Denom] = coin.Amount.Int64()
		}
		bal[nm] = b
	}
	s["bal"] = bal
	s["lastTx"] = ck.GetLastTransmissionBlockHeight(ctx).Height
	s["bpdt"] = ck.GetBlocksPerDistributionTransmission(ctx)
	s["frac"] = ck.GetConsumerRedistributionFrac(ctx)
	if fd, err := sdkmath.LegacyNewDecFromStr(ck.GetConsumerRedistributionFrac(ctx)); err == nil {
		s["fracBp"] = fd.MulInt64(10000).TruncateInt64()
	} else {
		s["fracBp"] = 0
	}
	xs := "none"
	if xc := ck.GetDistributionTransmissionChannel(ctx); xc != "" {
		if ch, ok := c.CApp.GetIBCKeeper().ChannelKeeper.GetChannel(ctx, "transfer", xc); ok {
			xs = ch.State.String()
		}
	}
	s["xferState"] = xs
	s["allowedDenoms"] = sortedStrs(append([]string{}, ck.AllowedRewardDenoms(ctx)...))
	s["rewardDenoms"] = sortedStrs(append([]string{}, ck.GetRewardDenoms(ctx)...))
	// sent CCV packets are observed via the relayer network (see blockObservations)
	return s
}

// ---------------------------------------------------------------------------------------
// raw digests of the provider store, attributed to consumer ids (C11, C13)

// keyOwner decodes which consumer id (if any) a provider store key belongs to.
// returns ("", false) for provider-wide keys. Keys of shared lists are handled by the caller.
func keyOwner(k []byte) (string, bool) {
	if len(k) == 0 {
		return "", false
	}
	switch k[0] {
	case 5, 7, 14, 15, 16, 17, 29: // legacy: prefix | consumerId
		return string(k[1:]), true
	case 22, 23, 31, 32, 36, 37, 39, 40, 41, 44, 45, 46, 47, 48, 49, 50, 54, 55, 56, 57, 58: // prefix | len | id | ...
		if len(k) < 9 {
			return "", false
		}
		l := int(sdk.BigEndianToUint64(k[1:9]))
		if 9+l > len(k) {
			return "", false
		}
		return string(k[9 : 9+l]), true
	}
	return "", false
}

func (w *World) digests(c *Chain, ctx sdk.Context) map[string]any {
	store := ctx.KVStore(c.PApp.GetKey(providertypes.StoreKey))
	it := store.Iterator(nil, nil)
	defer it.Close()
	per := map[string][]byte{}
	keys := map[string][]any{}
	rest := sha256.New()
	all := sha256.New()
	add := func(id string, k, v []byte) {
		h := sha256.New()
		h.Write(per[id])
		h.Write(k)
		h.Write([]byte{0})
		h.Write(v)
		per[id] = h.Sum(nil)
		keys[id] = appendUnique(keys[id], int64(k[0]))
	}
	for ; it.Valid(); it.Next() {
		k, v := it.Key(), it.Value()
		all.Write(k)
		all.Write([]byte{0})
		all.Write(v)
		if id, ok := keyOwner(k); ok {
			add(id, k, v)
			continue
		}
		switch k[0] {
		case 6, 53: // channel -> consumer, client -> consumer : owner is the value
			add(string(v), k, v)
			continue
		case 51, 52, 59: // time queues: attribute each member separately, independent of list layout
			var ids providertypes.ConsumerIds
			if err := ids.Unmarshal(v); err == nil {
				for _, id := range ids.Ids {
					add(id, k, []byte("member"))
				}
				continue
			}
		}
		rest.Write(k)
		rest.Write([]byte{0})
		rest.Write(v)
	}
	out := map[string]any{}
	cons := map[string]any{}
	pref := map[string]any{}
	for id, d := range per {
		cons[consIDName(id)] = hex.EncodeToString(d[:8])
		pref[consIDName(id)] = keys[id]
	}
	out["cons"] = cons
	out["prefixes"] = pref
	out["rest"] = hex.EncodeToString(rest.Sum(nil)[:8])
	out["all"] = hex.EncodeToString(all.Sum(nil)[:8])
	// staking + slashing store digests (C07/C08 "nobody else changed" uses the abstract vals; digests for rejected msgs)
	for nm, key := range map[string]string{"staking": stakingtypes.StoreKey, "distr": distrtypes.StoreKey} {
		st := ctx.KVStore(c.PApp.GetKey(key))
		h := sha256.New()
		i2 := st.Iterator(nil, nil)
		for ; i2.Valid(); i2.Next() {
			h.Write(i2.Key())
			h.Write([]byte{0})
			h.Write(i2.Value())
		}
		i2.Close()
		out[nm] = hex.EncodeToString(h.Sum(nil)[:8])
	}
	return out
}

func appendUnique(xs []any, v int64) []any {
	for _, x := range xs {
		if x.(int64) == v {
			return xs
		}
	}
	return append(xs, v)
}

// ---------------------------------------------------------------------------------------
// observations attached to tx / block events

func attr(ev []abciEvent, typ, key string) (string, bool) {
	for _, e := range ev {
		if e.Type != typ {
			continue
		}
		for _, a := range e.Attributes {
			if a.Key == key {
				return a.Value, true
			}
		}
	}
	return "", false
}

// txObservations extracts what a transaction visibly did: acks written, packets received, ids issued.
func txObservations(w *World, c *Chain, tx TxSpec, r TxResult) map[string]any {
	out := map[string]any{}
	if r.Code != 0 {
		return out
	}
	var acks []any
	var recvd []any
	for _, e := range r.Events {
		switch e.Type {
		case channeltypes.EventTypeWriteAck:
			for _, a := range e.Attributes {
				if a.Key == channeltypes.AttributeKeyAckHex {
					b, _ := hex.DecodeString(a.Value)
					acks = append(acks, classifyAck(b))
				}
			}
		case channeltypes.EventTypeRecvPacket:
			var data []byte
			var dport string
			for _, a := range e.Attributes {
				if a.Key == channeltypes.AttributeKeyDataHex {
					data, _ = hex.DecodeString(a.Value)
				}
				if a.Key == channeltypes.AttributeKeyDstPort {
					dport = a.Value
				}
			}
			dp := w.describePacket(dport, data)
			for _, a := range e.Attributes {
				if a.Key == channeltypes.AttributeKeyDstChannel {
					dp["dstChan"] = a.Value
				}
			}
			recvd = append(recvd, dp)
		case providertypes.EventTypeCreateConsumer:
			for _, a := range e.Attributes {
				if a.Key == providertypes.AttributeConsumerId {
					out["newId"] = consIDName(a.Value)
				}
			}
		case providertypes.EventTypeExecuteConsumerChainSlash:
			for _, a := range e.Attributes {
				if a.Key == providertypes.AttributeInfractionHeight {
					v, _ := strconv.ParseInt(a.Value, 10, 64)
					out["infrH"] = v
				}
			}
		}
	}
	if acks != nil {
		out["acks"] = acks
	}
	if recvd != nil {
		out["recv"] = recvd
	}
	return out
}

func classifyAck(b []byte) string {
	var ack channeltypes.Acknowledgement
	if err := channeltypes.SubModuleCdc.UnmarshalJSON(b, &ack); err != nil {
		return "undecodable"
	}
	if ack.GetError() != "" {
		return "error"
	}
	res := ack.GetResult()
	if len(res) == 1 {
		switch res[0] {
		case ccvtypes.V1Result[0]:
			return "v1"
		case ccvtypes.SlashPacketHandledResult[0]:
			return "handled"
		case ccvtypes.SlashPacketBouncedResult[0]:
			return "bounced"
		}
	}
	return "other"
}

// describePacket decodes CCV packet data (VSC packets arrive on the consumer port, consumer packets on the provider port).
func (w *World) describePacket(dstPort string, data []byte) map[string]any {
	switch dstPort {
	case ccvtypes.ConsumerPortID:
		var p ccvtypes.ValidatorSetChangePacketData
		if err := ccvtypes.ModuleCdc.UnmarshalJSON(data, &p); err == nil {
			m := w.vscPacket(p)
			m["type"] = "vsc"
			return m
		}
	case ccvtypes.ProviderPortID:
		cp, err := providerUnmarshalConsumerPacket(data)
		if err == nil {
			switch cp.Type {
			case ccvtypes.SlashPacket:
				sp := cp.GetSlashPacketData()
				inf := "downtime"
				if sp.Infraction == stakingtypes.Infraction_INFRACTION_DOUBLE_SIGN {
					inf = "doublesign"
				}
				return map[string]any{"type": "slash", "key": w.N.keyName(sp.Validator.Address), "id": int64(sp.ValsetUpdateId), "inf": inf, "pow": sp.Validator.Power}
			case ccvtypes.VscMaturedPacket:
				return map[string]any{"type": "matured", "key": "", "id": int64(cp.GetVscMaturedPacketData().ValsetUpdateId), "inf": "", "pow": 0}
			}
		}
	}
	if dstPort == "transfer" {
		var ft transfertypes.FungibleTokenPacketData
		if err := transfertypes.ModuleCdc.UnmarshalJSON(data, &ft); err == nil {
			amt, _ := strconv.ParseInt(ft.Amount, 10, 64)
			memoC := ""
			if m, err := ccvtypes.GetRewardMemoFromTransferMemo(ft.Memo); err == nil {
				memoC = consIDName(m.ConsumerId)
			}
			toPool := false
			if w.P != nil {
				toPool = ft.Receiver == w.poolAddr
			}
			// "denom" is the denom as the SENDER holds it (a voucher that travels back is written as its full path in the packet)
			local := ft.Denom
			if strings.Contains(local, "/") {
				local = ccvtypes.ParseDenomTrace(local).IBCDenom()
			}
			return map[string]any{"type": "transfer", "denom": local, "path": ft.Denom, "amt": amt, "memoC": memoC, "toPool": toPool}
		}
	}
	return map[string]any{"type": "other", "port": dstPort}
}

func providerUnmarshalConsumerPacket(data []byte) (ccvtypes.ConsumerPacketData, error) {
	var v1 ccvtypes.ConsumerPacketDataV1
	if err := ccvtypes.ModuleCdc.UnmarshalJSON(data, &v1); err == nil {
		cp := ccvtypes.ConsumerPacketData{Type: v1.Type}
		switch v1.Type {
		case ccvtypes.SlashPacket:
			s := v1.GetSlashPacketData()
			if s == nil {
				return cp, fmt.Errorf("no slash data")
			}
			cp.Data = &ccvtypes.ConsumerPacketData_SlashPacketData{SlashPacketData: s.FromV1()}
		case ccvtypes.VscMaturedPacket:
			cp.Data = &ccvtypes.ConsumerPacketData_VscMaturedPacketData{VscMaturedPacketData: v1.GetVscMaturedPacketData()}
		}
		return cp, nil
	}
	var cp ccvtypes.ConsumerPacketData
	err := ccvtypes.ModuleCdc.UnmarshalJSON(data, &cp)
	return cp, err
}

// blockObservations: packets sent in this block (decoded), per destination port.
func blockObservations(w *World, c *Chain, br *BlockResult) map[string]any {
	sent := []any{}
	evs := append([]abciEvent{}, br.Events...)
	for _, r := range br.Txs {
		if r.Code == 0 {
			evs = append(evs, r.Events...)
		}
	}
	for _, e := range evs {
		if e.Type != channeltypes.EventTypeSendPacket {
			continue
		}
		var data []byte
		var dport, sch string
		for _, a := range e.Attributes {
			switch a.Key {
			case channeltypes.AttributeKeyDataHex:
				data, _ = hex.DecodeString(a.Value)
			case channeltypes.AttributeKeyDstPort:
				dport = a.Value
			case channeltypes.AttributeKeySrcChannel:
				sch = a.Value
			}
		}
		d := w.describePacket(dport, data)
		d["chan"] = sch
		sent = append(sent, d)
	}
	return map[string]any{"sent": sent}
}
