"""Per-property configuration of the checks: which TLC model runs, which trace corpora are generated from the
real code, which Trace.tla formulas decide the property, and how coverage (non-vacuity) is measured."""

DEFAULT_STEPS = {"quick": 90, "thorough": 140}


def steps_for(corpus, tier):
    return DEFAULT_STEPS[tier]


RANDOM = {"name": "random", "n": {"quick": 48, "thorough": 600}}


def _cons(e, c):
    return e["s"].get("cons", {}).get(c, {})


# ---- coverage classifiers: map an event (with resolved state) to the non-trivial classes it witnesses -------------

def cls_c01(e):
    out = []
    a = e["a"]
    if e["chain"] != "p" and a == "Tx:Recv" and e["res"].get("code") == 0:
        n = len([r for r in e["res"].get("recv", []) if r.get("type") == "vsc"])
        if n:
            out.append("recv_vsc_%s" % ("many" if n > 1 else "one"))
    if e["chain"] != "p" and a == "Block":
        out.append("cblock_set_size_%d" % min(len(e["s"].get("ccv", {})), 4))
        if e["args"].get("updates"):
            out.append("cblock_with_updates")
    if a == "PQueueVSC":
        r = _cons(e, e["args"]["c"])
        out.append("queue_pending_%d" % min(len(r.get("pendingVSC", [])), 3))
        if r.get("chan"):
            out.append("queue_channel_open")
        if any(k in ("k1", "k2", "k3", "k4", "k5", "k6", "k7", "k8") for k in [v["key"] for v in r.get("cvs", {}).values()]):
            out.append("queue_with_assigned_key")
    if a == "PSendVSC":
        out.append("send")
    if a == "PLaunchOK":
        out.append("launch")
    if a == "Block" and e["chain"] == "p" and e["res"].get("sent"):
        out.append("sent_%d" % min(len(e["res"]["sent"]), 3))
    return out


def cls_c02(e):
    out = []
    if e["a"] in ("PQueueVSC", "PLaunchOK"):
        r = _cons(e, e["args"]["c"])
        s = e["s"]
        tag = "launch" if e["a"] == "PLaunchOK" else "epoch"
        out.append(f"{tag}_members_{min(len(r.get('cvs', {})), 4)}")
        if r.get("topN", 0) > 0:
            out.append(f"{tag}_topN")
        if not r.get("allowInactive") and s.get("M", 99) < len([v for v in s["vals"].values() if v["st"] == "bonded"]):
            out.append(f"{tag}_inactive_excluded_config")
        if r.get("allowL"):
            out.append(f"{tag}_allowlist")
        if r.get("denyL"):
            out.append(f"{tag}_denylist")
        if r.get("minStake", 0) > 0:
            out.append(f"{tag}_minstake")
        if r.get("valKey"):
            out.append(f"{tag}_assigned_keys")
        if any(v["jailed"] for v in s["vals"].values()):
            out.append(f"{tag}_some_jailed")
        lps = sorted(v["lp"] for v in s["vals"].values() if v["st"] == "bonded")
        if len(lps) != len(set(lps)):
            out.append(f"{tag}_power_ties")
    return out


def cls_c03(e):
    out = []
    if e["a"] in ("PQueueVSC", "PLaunchOK"):
        r = _cons(e, e["args"]["c"])
        if r.get("topN", 0) > 0:
            out.append("topN_%d" % r["topN"])
            mp = r.get("minPow", {})
            if mp.get("present"):
                below = [v for v, x in e["s"]["vals"].items() if x["st"] == "bonded" and x["lp"] < mp["v"]]
                out.append("some_below_threshold" if below else "none_below_threshold")
    if e["a"] == "Tx:OptOut":
        r = _cons(e, e["args"].get("c", ""))
        out.append("optout_%s_topN%s" % ("ok" if e["res"].get("code") == 0 else "rejected", "+" if r.get("topN", 0) > 0 else "0"))
    if e["a"] == "Tx:UpdateConsumer" and e["res"].get("code") == 0 and "shaping" in e["args"]:
        out.append("update_shaping_topN%s" % ("+" if e["args"]["shaping"].get("topN", 0) else "0"))
    return out


def cls_c04(e):
    out = []
    if e["a"] in ("PQueueVSC", "PLaunchOK"):
        r = _cons(e, e["args"]["c"])
        if r.get("valCap", 0) > 0 and r.get("topN", 0) == 0:
            out.append("valcap_%d_members_%d" % (r["valCap"], len(r.get("cvs", {}))))
            if r.get("prioL"):
                out.append("valcap_with_priority")
        if r.get("powCap", 0) > 0 and r.get("cvs"):
            pw = [v["pow"] for v in r["cvs"].values()]
            lp = [e["s"]["vals"][v]["lp"] for v in r["cvs"]]
            out.append("powcap_%s" % ("changed" if sorted(pw) != sorted(lp) else "unchanged"))
    if e["a"].startswith("Vec"):
        out.append(e["a"])
    return out


def cls_c12(e):
    out = []
    if e["a"] == "PEndQueueVSC":
        out.append("epoch_bpe_%d" % e["s"].get("bpe", 0))
    if e["chain"] != "p" and e["a"] == "Block":
        ids = set(e["s"].get("h2id", {}).values())
        out.append("consumer_ids_%d" % min(len(ids), 4))
    if e["chain"] == "p" and e["a"] == "Block":
        out.append("pblock_%s" % ("epoch" if e["s"].get("h", 1) % max(e["s"].get("bpe", 1), 1) == 0 else "plain"))
    return out


def cls_c15(e):
    out = []
    if e["a"] == "PEndProvVals":
        s = e["s"]
        nb = len([v for v in s["vals"].values() if v["st"] == "bonded"])
        out.append("bonded_%s_M" % ("gt" if nb > s["M"] else "le"))
        lps = sorted(v["lp"] for v in s["vals"].values() if v["st"] == "bonded")
        if len(lps) != len(set(lps)):
            out.append("ties")
    if e["a"] == "Block" and e["chain"] == "p" and e["args"].get("updates"):
        ups = e["args"]["updates"]
        out.append("updates_%s" % ("removal" if 0 in ups.values() else "change"))
    return out


MC_VSCFLOW = [{"module": "MC_VSCFlow.tla", "cfg": "MC_VSCFlowA.cfg", "timeout": 600}]
MC_ELIG = [{"module": "MC_Shaping.tla", "cfg": "MC_ShapingEligQ.cfg", "timeout": 900},
           {"module": "MC_Shaping.tla", "cfg": "MC_ShapingEligT.cfg", "timeout": 3000, "tier": "thorough"}]
MC_CAP = [{"module": "MC_Shaping.tla", "cfg": "MC_ShapingCapQ.cfg", "timeout": 900},
          {"module": "MC_Shaping.tla", "cfg": "MC_ShapingCapT.cfg", "timeout": 3000, "tier": "thorough"}]

PROPS = {
    "C01": {
        "level": "model_checking",
        "mc": MC_VSCFLOW,
        "corpora": [RANDOM],
        "invariants": ["C01_Inv"],
        "properties": ["C01_Order", "C01_Diff", "C01_Send", "C01_Launch"],
        "classify": cls_c01,
        "rule": "events of traces recorded from the real provider/consumer apps under the seeded random driver; a class is a distinct (event kind, queue length / batch size / key-assignment / set size) combination",
        "required_classes": {"quick": ["recv_vsc_one", "launch", "send", "cblock_with_updates"]},
        "assumptions": ["CometBFT never runs with an empty validator set: a chain whose set would become empty is stopped by the environment",
                        "IBC core delivers packets of an ORDERED channel in order (real ibc-go code is executed, not modelled)"],
    },
    "C02": {
        "level": "model_checking",
        "mc": MC_ELIG,
        "corpora": [RANDOM],
        "invariants": [],
        "properties": ["C02_Sound", "C02_Complete", "C02_Power", "C02_Key"],
        "classify": cls_c02,
        "rule": "set computations (epoch and launch) observed in random histories, classified by which eligibility conjuncts are in play",
        "required_classes": {"quick": ["epoch_members_2", "epoch_power_ties", "epoch_inactive_excluded_config", "launch_members_1"]},
        "assumptions": [],
    },
    "C03": {
        "level": "model_checking", "mc": MC_ELIG, "corpora": [RANDOM], "invariants": [],
        "properties": ["C03_Threshold", "C03_UpdateThreshold", "C03_AutoOptIn", "C03_OptOut", "C03_OptInRecords"],
        "classify": cls_c03, "rule": "Top-N set computations, opt-out attempts and Top-N parameter changes observed in random histories",
        "required_classes": {"quick": ["topN_67", "some_below_threshold", "optout_ok_topN0", "optout_rejected_topN+", "update_shaping_topN+"]}, "assumptions": [],
    },
    "C04": {
        "level": "model_checking", "mc": MC_CAP, "corpora": [RANDOM], "invariants": [],
        "properties": ["C04_Cap", "C04_PowerCap"],
        "classify": cls_c04, "rule": "set computations with a validator-set cap or power cap in force", "required_classes": {"quick": []},
        "assumptions": [],
    },
    "C12": {
        "level": "model_checking", "mc": MC_VSCFLOW, "corpora": [RANDOM],
        "invariants": ["C12_PacketIds", "C12_ConsumerMap"],
        "properties": ["C12_IdStep", "C12_IdPerEpoch", "C12_IdHeight", "C12_ConsumerMapStable"],
        "classify": cls_c12, "rule": "provider blocks (epoch / plain, by epoch length) and consumer blocks by number of distinct ids in the height map",
        "required_classes": {"quick": ["pblock_epoch", "consumer_ids_2"]}, "assumptions": [],
    },
    "C15": {
        "level": "model_checking", "mc": MC_ELIG, "corpora": [RANDOM], "invariants": [],
        "properties": ["C15_TopM", "C15_Diff", "C15_OnlyThere"],
        "classify": cls_c15, "rule": "provider end-block steps classified by bonded-vs-M and ties; blocks by kind of engine update",
        "required_classes": {"quick": ["bonded_gt_M", "updates_change"]}, "assumptions": [],
    },
}

# ---- texts for MANIFEST.json -----------------------------------------------------------------------------------
_TV = "TLC evaluates the property's formulas on every state/step recorded from the real provider and consumer applications (own genesis, real blocks, real IBC proofs) under a seeded random driver; "
MANIFEST_TEXT = {
    "C01": {"text": _TV + "an exhaustive TLC model of the packet flow (MC_VSCFlow: all next-sets over 3 keys, all relay prefixes, any channel-opening epoch) checks the design within small bounds.",
            "note": "Bounded model (3 keys x powers {0,1}, 4 epochs); real-code conformance only on sampled histories; CometBFT empty-set precondition; ibc-go ordered delivery executed, not modelled."},
    "C02": {"text": _TV + "the code's selection algorithm is transcribed in MC_Shaping and checked exhaustively against the declarative eligibility definition over all small inputs (tokens with tied powers, active-set sizes, opt-ins, lists).",
            "note": "At a launch the active set is accepted as either the recorded consensus set or the top-M of the power index (a validator jailed in the same BeginBlock)."},
    "C03": {"text": _TV + "MC_Shaping checks the transcribed threshold loop and auto-opt-in against the declarative MinPowerTopN for all small inputs.",
            "note": "Threshold reading: greatest power m whose top-down set reaches N percent (DESIGN C03); sticky auto-opt-in is allowed; integer arithmetic (totals < 2^31)."},
    "C04": {"text": _TV + "MC_Shaping transcribes the cap / priority partition / power-cap distribution and checks the documented postconditions exhaustively over small multisets, caps and percentages.",
            "note": "Powers limited to TLC's 32-bit integers; ties in rank are left open as in the statement."},
    "C12": {"text": _TV + "MC_VSCFlow checks id/height bookkeeping exhaustively for one consumer.",
            "note": "The provider's current, not yet packaged id has a recorded height and is not required to be rejected."},
    "C15": {"text": _TV + "MC_Shaping checks top-M selection with ties for all small inputs.",
            "note": "Staking arithmetic is observed environment; ties at the boundary are left open."},
}
NOT_CLAIMED = {}
