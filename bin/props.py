"""Per-property configuration of the checks: which TLC model runs, which trace corpora are generated from the
real code, which Trace.tla formulas decide the property, and how coverage (non-vacuity) is measured."""

DEFAULT_STEPS = {"quick": 90, "thorough": 140}


def steps_for(corpus, tier):
    return DEFAULT_STEPS[tier]


RANDOM = {"name": "random", "n": {"quick": 48, "thorough": 600}}
FAULTS = {"name": "faults", "n": {"quick": 18, "thorough": 18}, "seed0": 0, "seeded": False}
REWARDS = {"name": "rewards", "n": {"quick": 16, "thorough": 48}, "seed0": 0, "seeded": False}
SCRIPTED = {"name": "scripted", "n": {"quick": 32, "thorough": 96}, "seed0": 0, "seeded": False}


def _cons(e, c):
    return e["s"].get("cons", {}).get(c, {})


# ---- coverage classifiers: map an event (with resolved state) to the non-trivial classes it witnesses -------------

def cls_c01(e):
    out = []
    a = e["a"]
    if e["chain"] != "p" and a == "Tx:Recv" and e["res"].get("code") == 0:
        n = len([r for r in e["res"].get("recv", []) if r.get("type") == "vsc"])
        if n:
            out.append("recv_vsc_%s" % ("many" if n > 1 else "one"))
    if e["chain"] != "p" and a == "Block":
        out.append("cblock_set_size_%d" % min(len(e["s"].get("ccv", {})), 4))
        if e["args"].get("updates"):
            out.append("cblock_with_updates")
    if a == "PQueueVSC":
        r = _cons(e, e["args"]["c"])
        out.append("queue_pending_%d" % min(len(r.get("pendingVSC", [])), 3))
        if r.get("chan"):
            out.append("queue_channel_open")
        if any(k in ("k1", "k2", "k3", "k4", "k5", "k6", "k7", "k8") for k in [v["key"] for v in r.get("cvs", {}).values()]):
            out.append("queue_with_assigned_key")
    if a == "PSendVSC":
        out.append("send")
    if a == "PLaunchOK":
        out.append("launch")
    if a == "Block" and e["chain"] == "p" and e["res"].get("sent"):
        out.append("sent_%d" % min(len(e["res"]["sent"]), 3))
    return out


def cls_c02(e):
    out = []
    if e["a"] in ("PQueueVSC", "PLaunchOK"):
        r = _cons(e, e["args"]["c"])
        s = e["s"]
        tag = "launch" if e["a"] == "PLaunchOK" else "epoch"
        out.append(f"{tag}_members_{min(len(r.get('cvs', {})), 4)}")
        if r.get("topN", 0) > 0:
            out.append(f"{tag}_topN")
        if not r.get("allowInactive") and s.get("M", 99) < len([v for v in s["vals"].values() if v["st"] == "bonded"]):
            out.append(f"{tag}_inactive_excluded_config")
        if r.get("allowL"):
            out.append(f"{tag}_allowlist")
        if r.get("denyL"):
            out.append(f"{tag}_denylist")
        if r.get("minStake", 0) > 0:
            out.append(f"{tag}_minstake")
        if r.get("valKey"):
            out.append(f"{tag}_assigned_keys")
        if any(v["jailed"] for v in s["vals"].values()):
            out.append(f"{tag}_some_jailed")
        lps = sorted(v["lp"] for v in s["vals"].values() if v["st"] == "bonded")
        if len(lps) != len(set(lps)):
            out.append(f"{tag}_power_ties")
    return out


def cls_c03(e):
    out = []
    if e["a"] in ("PQueueVSC", "PLaunchOK"):
        r = _cons(e, e["args"]["c"])
        if r.get("topN", 0) > 0:
            out.append("topN_%d" % r["topN"])
            mp = r.get("minPow", {})
            if mp.get("present"):
                below = [v for v, x in e["s"]["vals"].items() if x["st"] == "bonded" and x["lp"] < mp["v"]]
                out.append("some_below_threshold" if below else "none_below_threshold")
    if e["a"] == "Tx:OptOut":
        r = _cons(e, e["args"].get("c", ""))
        out.append("optout_%s_topN%s" % ("ok" if e["res"].get("code") == 0 else "rejected", "+" if r.get("topN", 0) > 0 else "0"))
    if e["a"] == "Tx:UpdateConsumer" and e["res"].get("code") == 0 and "shaping" in e["args"]:
        out.append("update_shaping_topN%s" % ("+" if e["args"]["shaping"].get("topN", 0) else "0"))
    return out


def cls_c04(e):
    out = []
    if e["a"] in ("PQueueVSC", "PLaunchOK"):
        r = _cons(e, e["args"]["c"])
        if r.get("valCap", 0) > 0 and r.get("topN", 0) == 0:
            out.append("valcap_%d_members_%d" % (r["valCap"], len(r.get("cvs", {}))))
            if r.get("prioL"):
                out.append("valcap_with_priority")
        if r.get("powCap", 0) > 0 and r.get("cvs"):
            pw = [v["pow"] for v in r["cvs"].values()]
            lp = [e["s"]["vals"][v]["lp"] for v in r["cvs"]]
            out.append("powcap_%s" % ("changed" if sorted(pw) != sorted(lp) else "unchanged"))
    if e["a"].startswith("Vec"):
        out.append(e["a"])
    return out


def cls_c12(e):
    out = []
    if e["a"] == "PEndQueueVSC":
        out.append("epoch_bpe_%d" % e["s"].get("bpe", 0))
    if e["chain"] != "p" and e["a"] == "Block":
        ids = set(e["s"].get("h2id", {}).values())
        out.append("consumer_ids_%d" % min(len(ids), 4))
    if e["chain"] == "p" and e["a"] == "Block":
        out.append("pblock_%s" % ("epoch" if e["s"].get("h", 1) % max(e["s"].get("bpe", 1), 1) == 0 else "plain"))
    return out


def cls_c15(e):
    out = []
    if e["a"] == "PEndProvVals":
        s = e["s"]
        nb = len([v for v in s["vals"].values() if v["st"] == "bonded"])
        out.append("bonded_%s_M" % ("gt" if nb > s["M"] else "le"))
        lps = sorted(v["lp"] for v in s["vals"].values() if v["st"] == "bonded")
        if len(lps) != len(set(lps)):
            out.append("ties")
    if e["a"] == "Block" and e["chain"] == "p" and e["args"].get("updates"):
        ups = e["args"]["updates"]
        out.append("updates_%s" % ("removal" if 0 in ups.values() else "change"))
    return out



def _code(e):
    return "ok" if e["res"].get("code") == 0 else "rej"


def cls_c05(e):
    out = []
    a = e["a"]
    if a in ("Tx:AssignKey", "Tx:OptIn") and "key" in e["args"] and "signer" not in e["args"]:
        r = _cons(e, e["args"].get("c", ""))
        out.append("%s_%s_%s" % (a[3:], _code(e), r.get("phase", "?")))
    if a == "Tx:CreateValidator":
        out.append("createval_%s_%s" % (_code(e), "extra" if e["args"]["key"].startswith("k") else "fresh"))
    if e["chain"] == "p" and a == "Block":
        n = sum(len(r.get("valKey", {})) for r in e["s"].get("cons", {}).values())
        out.append("assigned_keys_%d" % min(n, 5))
    return out


def cls_c06(e):
    out = []
    if e["a"] == "PEndCIS":
        n = sum(len(r.get("toPrune", [])) for r in e["s"].get("cons", {}).values())
        out.append("prune_entries_%d" % min(n, 4))
    if e["a"] in ("Tx:AssignKey",) and e["res"].get("code") == 0:
        r = _cons(e, e["args"]["c"])
        out.append("assign_on_%s" % r.get("phase"))
    if e["a"] == "Tx:Recv" and e["chain"] == "p":
        for pk in e["res"].get("recv", []):
            if pk.get("type") == "slash":
                out.append("slash_for_%s" % ("extra_key" if pk["key"].startswith("k") else "provider_key"))
    return out


def cls_c07(e):
    out = []
    if e["a"] == "Tx:DoubleVoting":
        a = e["args"]
        bad = [k for k in ("chainOk", "sameH", "sameR", "sameT", "sameAddr", "blockDiff", "sigA", "sigB") if not a[k]]
        if a["old"]:
            bad.append("old")
        if a["hdrKey"] != a["key"]:
            bad.append("hdrKey")
        r = _cons(e, a["c"])
        out.append("dv_%s_%s_%s_%s" % ("+".join(bad) or "valid", r.get("phase", "unknown"), a["key"][:2], _code(e)))
    if e["a"] == "Tx:Misbehaviour":
        a = e["args"]
        bad = [k for k in ("clientOk", "chainOk", "sameH", "sigOk") if not a[k]] + (["old"] if a["old"] else [])
        out.append("mb_%s_signers%d_%s" % ("+".join(bad) or "valid", len(a["both"]), _code(e)))
    return out


def cls_c08(e):
    out = []
    if e["a"] == "Tx:Recv" and e["chain"] == "p" and e["res"].get("code") == 0:
        for pk, ack in zip(e["res"].get("recv", []), e["res"].get("acks", [])):
            if pk.get("type") == "slash":
                out.append("slash_%s_%s" % (pk["inf"], ack))
    if e["a"] == "PQueueVSC":
        r = _cons(e, e["args"]["c"])
        if r.get("pendingVSC") and r["pendingVSC"][-1].get("acks"):
            out.append("vsc_carries_acks")
    if e["chain"] != "p" and e["a"] == "Block":
        if e["s"].get("outstanding"):
            out.append("consumer_outstanding")
        if any(p["type"] == "slash" for p in e["s"].get("pending", [])):
            out.append("consumer_slash_pending")
    if e["a"] == "Forge":
        out.append("forged")
    return out


def cls_c09(e):
    out = cls_c08(e)
    if e["a"] == "PBeginCIS":
        out.append("meter_%s" % ("neg" if e["s"].get("meter", 0) < 0 else "full" if e["s"].get("meter") == e["s"].get("allow") else "partial"))
    if e["chain"] != "p" and e["a"] == "CEndSend":
        sr = e["s"].get("slashRec", {})
        out.append("send_%s" % ("norecord" if not sr.get("present") else "waiting" if sr["v"]["waiting"] else "bounced"))
    return out


def cls_c10(e):
    out = []
    a = e["a"]
    if a in ("PLaunchOK", "PLaunchFail", "PRemoveOK", "PRemoveFail"):
        out.append(a)
    if a == "Tx:CreateConsumer":
        out.append("create_%s_%s" % (_code(e), "spawn" if e["args"].get("init", {}).get("spawn") else "nospawn"))
    if a == "Tx:UpdateConsumer" and e["res"].get("code") == 0:
        r = _cons(e, e["args"]["c"])
        out.append("update_%s_%s" % (r.get("phase"), "init" if "init" in e["args"] else "noinit"))
    if a == "PLaunchDue" and e["s"].get("launchQ") is not None:
        out.append("launchq_%d" % min(len(e["s"]["launchQ"]), 3))
    return out


def cls_c11(e):
    out = []
    a = e["a"]
    if a in ("PRemoveOK", "PRemoveFail"):
        out.append(a)
    if a in ("Tx:RemoveConsumer", "Tx:Timeout") and e["res"].get("code") == 0:
        out.append("stop_by_" + a[3:])
    if a == "Block" and e["chain"] == "p":
        st = [c for c, r in e["s"].get("cons", {}).items() if r["phase"] == "stopped"]
        if st:
            out.append("stopped_present")
    return out


def cls_c13(e):
    out = []
    if e["chain"] == "p" and (e["a"].startswith("Tx:") or e["a"] in ("PLaunchOK", "PLaunchFail", "PRemoveOK", "PQueueVSC", "PSendVSC")):
        n = len(e["s"].get("cons", {}))
        if n >= 2:
            out.append("%s_with_%d_consumers" % (e["a"], min(n, 4)))
    return out


def cls_c14(e):
    out = []
    a = e["a"]
    if a.startswith("Tx:") and e["chain"] == "p" and a[3:] in ("CreateConsumer", "UpdateConsumer", "RemoveConsumer", "OptIn", "OptOut", "AssignKey", "SetCommission", "UpdateParams", "ChangeRewardDenoms"):
        who = "gov" if e["args"].get("gov") else "wrongsigner" if "signer" in e["args"] else "user"
        out.append("%s_%s_%s" % (a[3:], who, _code(e)))
    return out


def cls_c16(e):
    out = []
    a = e["a"]
    if a == "CEndRD" and e["s"].get("bal") is not None:
        out.append("split_frac_%s" % e["s"].get("fracBp"))
    if a == "Block" and e["chain"] != "p":
        n = len([x for x in e["res"].get("sent", []) if x.get("type") == "transfer"])
        if n:
            out.append("transmit_%d" % min(n, 2))
    if a == "Tx:Recv" and e["args"].get("port") == "transfer" and e["chain"] == "p":
        out.append("reward_recv_%s" % _code(e))
    if a in ("PAllocateOK", "PAllocateFail"):
        r = _cons(e, e["args"]["c"])
        out.append("%s_members_%d" % (a, min(len(r.get("cvs", {})), 3)))
    if a == "Tx:Fees" and e["res"].get("code") == 0:
        out.append("fees_%s" % e["args"]["denom"])
    return out


def cls_c17(e):
    out = []
    a = e["a"]
    if a in ("Tx:ChanOpenTry", "Tx:ChanOpenConfirm", "Tx:ChanOpenInit", "Tx:ChanOpenAck") and "order" in e["args"]:
        ar = e["args"]
        dev = "good"
        if ar["order"] != "ORDER_ORDERED":
            dev = "unordered"
        elif ar["version"] != "1":
            dev = "version"
        elif ar["cport"] != "consumer":
            dev = "port"
        out.append("%s_%s_%s_%s" % (e["chain"] == "p" and "p" or "c", a[3:], dev, _code(e)))
    if a == "PLaunchOK":
        r = _cons(e, e["args"]["c"])
        out.append("launch_%s" % ("on_connection" if r.get("conn") else "new_client"))
    if a == "PLaunchFail":
        r = _cons(e, e["args"]["c"])
        if r.get("conn"):
            out.append("launch_on_connection_failed")
    if e["chain"] != "p" and a == "Tx:Recv" and e["res"].get("code") == 0 and any(x.get("type") == "vsc" for x in e["res"].get("recv", [])):
        out.append("first_vsc" if not e["s"].get("h2id") else "vsc_received")
    return out


def cls_c18(e):
    if e["a"] == "Obs":
        return ["block_%s" % ("provider" if e["args"]["chain"] == "p" else "consumer")]
    if e["a"] == "ObsLen":
        return ["history_len_%d" % (e["args"]["r1"] // 50)]
    return []


def cls_c19(e):
    out = []
    if e["a"] in ("PLaunchFail", "PRemoveFail", "PAllocateFail", "BlockError", "EnvHalt"):
        out.append(e["a"])
    if e["a"] == "Block":
        out.append("block_%s" % ("p" if e["chain"] == "p" else "c"))
    if e["a"].startswith("Tx:") and e["res"].get("code") not in (0, None):
        out.append("failed_%s" % e["a"][3:])
    return out


def cls_c20(e):
    out = []
    if e["a"] == "Tx:UpdateConsumer" and e["res"].get("code") == 0 and "infr" in e["args"]:
        r = _cons(e, e["args"]["c"])
        out.append("infr_update_%s_%s" % (r.get("phase"), "pending" if r.get("infrQd", {}).get("present") else "nopending"))
    if e["a"] == "PBeginInfraction":
        out.append("infrq_%d" % min(len(e["s"].get("infrQ", [])), 3))
    if e["a"] == "Tx:Recv" and e["chain"] == "p" and "handled" in e["res"].get("acks", []):
        out.append("punish_step")
    return out


MC_VSCFLOW = [{"module": "MC_VSCFlow.tla", "cfg": "MC_VSCFlowA.cfg", "timeout": 600}]
MC_KEYS = [{"module": "MC_Keys.tla", "cfg": "MC_KeysQ.cfg", "timeout": 600},
           {"module": "MC_Keys.tla", "cfg": "MC_KeysM.cfg", "timeout": 1200, "tier": "thorough"},
           {"module": "MC_Keys.tla", "cfg": "MC_KeysT.cfg", "timeout": 3000, "tier": "thorough"},
           {"module": "MC_Keys.tla", "cfg": "MC_KeysT3v.cfg", "timeout": 3000, "tier": "thorough"}]
MC_LIFE = [{"module": "MC_Lifecycle.tla", "cfg": "MC_LifecycleQ.cfg", "timeout": 900},
           {"module": "MC_Lifecycle.tla", "cfg": "MC_LifecycleT.cfg", "timeout": 3000, "tier": "thorough"},
           {"module": "MC_Lifecycle.tla", "cfg": "MC_LifecycleT3.cfg", "timeout": 3000, "tier": "thorough"}]
MC_SLASH = [{"module": "MC_Slash.tla", "cfg": "MC_SlashQ.cfg", "timeout": 600},
            {"module": "MC_Slash.tla", "cfg": "MC_SlashT.cfg", "timeout": 3000, "tier": "thorough"}]
MC_HS = [{"module": "MC_Handshake.tla", "cfg": "MC_HandshakeQ.cfg", "timeout": 600},
         {"module": "MC_Handshake.tla", "cfg": "MC_HandshakeT.cfg", "timeout": 3000, "tier": "thorough"}]
MC_REW = [{"module": "MC_Rewards.tla", "cfg": "MC_RewardsQ.cfg", "timeout": 600},
          {"module": "MC_Rewards.tla", "cfg": "MC_RewardsF.cfg", "timeout": 600},
          {"module": "MC_Rewards.tla", "cfg": "MC_RewardsT.cfg", "timeout": 3000, "tier": "thorough"}]
MC_ELIG = [{"module": "MC_Shaping.tla", "cfg": "MC_ShapingEligQ.cfg", "timeout": 900},
           {"module": "MC_Shaping.tla", "cfg": "MC_ShapingEligT.cfg", "timeout": 3000, "tier": "thorough"}]
MC_CAP = [{"module": "MC_Shaping.tla", "cfg": "MC_ShapingCapQ.cfg", "timeout": 900},
          {"module": "MC_Shaping.tla", "cfg": "MC_ShapingCapT.cfg", "timeout": 3000, "tier": "thorough"}]

PROPS = {
    "C01": {
        "level": "model_checking",
        "mc": MC_VSCFLOW,
        "corpora": [RANDOM, SCRIPTED],
        "invariants": ["C01_Inv"],
        "properties": ["C01_Order", "C01_Diff", "C01_Send", "C01_Launch"],
        "classify": cls_c01,
        "rule": "events of traces recorded from the real provider/consumer apps under the seeded random driver; a class is a distinct (event kind, queue length / batch size / key-assignment / set size) combination",
        "required_classes": {"quick": ["recv_vsc_one", "launch", "send", "cblock_with_updates"]},
        "assumptions": ["CometBFT never runs with an empty validator set: a chain whose set would become empty is stopped by the environment",
                        "IBC core delivers packets of an ORDERED channel in order (real ibc-go code is executed, not modelled)"],
    },
    "C02": {
        "level": "model_checking",
        "mc": MC_ELIG,
        "corpora": [RANDOM, SCRIPTED],
        "invariants": [],
        "properties": ["C02_Sound", "C02_Complete", "C02_Power", "C02_Key"],
        "classify": cls_c02,
        "rule": "set computations (epoch and launch) observed in random histories, classified by which eligibility conjuncts are in play",
        "required_classes": {"quick": ["epoch_members_2", "epoch_power_ties", "epoch_inactive_excluded_config", "launch_members_1"]},
        "assumptions": [],
    },
    "C03": {
        "level": "model_checking", "mc": MC_ELIG, "corpora": [RANDOM, SCRIPTED], "invariants": [],
        "properties": ["C03_Threshold", "C03_UpdateThreshold", "C03_AutoOptIn", "C03_OptOut", "C03_OptInRecords"],
        "classify": cls_c03, "rule": "Top-N set computations, opt-out attempts and Top-N parameter changes observed in random histories",
        "required_classes": {"quick": ["topN_67", "some_below_threshold", "optout_ok_topN0", "optout_rejected_topN+", "update_shaping_topN+"]}, "assumptions": [],
    },
    "C04": {
        "level": "model_checking", "mc": MC_CAP, "corpora": [RANDOM, SCRIPTED, {"name": "vectors", "n": {"quick": 3, "thorough": 3}, "seed0": 0, "seeded": False}],
        "invariants": ["C04_VecPowerCap", "C04_VecSetCap", "C04_VecPowerCapBig"],
        "properties": ["C04_Cap", "C04_PowerCap"],
        "classify": cls_c04, "rule": "set computations with a validator-set cap or power cap in force; plus the exported functions NoMoreThanPercentOfTheSum / CapValidatorSet run on every multiset of <= 5 powers from three small domains x every cap / percentage (complete enumeration of that domain)",
        "required_classes": {"quick": ["VecPowerCap", "VecSetCap", "VecPowerCapBig", "powcap_changed", "valcap_with_priority"]},
        "assumptions": [],
    },
    "C12": {
        "level": "model_checking", "mc": MC_VSCFLOW, "corpora": [RANDOM, SCRIPTED],
        "invariants": ["C12_PacketIds", "C12_ConsumerMap"],
        "properties": ["C12_IdStep", "C12_IdPerEpoch", "C12_IdHeight", "C12_ConsumerMapStable", "C12_SlashId", "C12_Resolve"],
        "classify": cls_c12, "rule": "provider blocks (epoch / plain, by epoch length) and consumer blocks by number of distinct ids in the height map",
        "required_classes": {"quick": ["pblock_epoch", "consumer_ids_2"]}, "assumptions": [],
    },
    "C15": {
        "level": "model_checking", "mc": MC_ELIG, "corpora": [RANDOM, SCRIPTED], "invariants": [],
        "properties": ["C15_TopM", "C15_Diff", "C15_OnlyThere"],
        "classify": cls_c15, "rule": "provider end-block steps classified by bonded-vs-M and ties; blocks by kind of engine update",
        "required_classes": {"quick": ["bonded_gt_M", "updates_change"]}, "assumptions": [],
    },
    "C05": {"level": "model_checking", "mc": MC_KEYS, "corpora": [RANDOM, SCRIPTED], "invariants": ["C05_Injective"],
            "properties": ["C05_Reject", "C05_Create"], "classify": cls_c05,
            "rule": "key-assignment attempts (by outcome and consumer phase), validator creations (by outcome and kind of key) and blocks by number of assigned keys",
            "required_classes": {"quick": ["AssignKey_ok_launched", "AssignKey_rej_launched", "createval_ok_fresh"]}, "assumptions": []},
    "C06": {"level": "model_checking", "mc": MC_KEYS, "corpora": [RANDOM, SCRIPTED], "invariants": ["C06_Attributable", "C06_PruneListed"],
            "properties": ["C06_Free", "C05_Reject", "C08_Outcome"], "classify": cls_c06,
            "rule": "end-blocks by number of keys scheduled for pruning, assignments by phase, slash packets by kind of key",
            "required_classes": {"quick": ["assign_on_launched", "prune_entries_1"]}, "assumptions": []},
    "C07": {"level": "model_checking",
            "mc": [{"module": "MC_Evidence.tla", "cfg": "MC_EvidenceQ.cfg", "timeout": 600},
                   {"module": "MC_Evidence.tla", "cfg": "MC_EvidenceT.cfg", "timeout": 1200, "tier": "thorough"}],
            "corpora": [{"name": "evidence", "n": {"quick": 12, "thorough": 48}, "seed0": 0, "seeded": False}],
            "invariants": [], "properties": ["C07_Verdict", "C07_OnlySigner", "C07_RejectedUnchanged", "C07_TombstoneSticky", "C07_MisbVerdict", "C07_MisbOnlySigners", "C07_MisbRejectedUnchanged"], "classify": cls_c07,
            "rule": "double-voting submissions by (mutated fields, consumer phase, kind of key, outcome)",
            "required_classes": {"quick": ["dv_valid_launched_pk_ok", "dv_valid_launched_k2_ok", "dv_valid_launched_k1_ok", "dv_sigA_launched_pk_rej", "dv_chainOk_launched_pk_rej", "dv_old_launched_pk_rej", "dv_valid_deleted_pk_rej", "dv_valid_registered_pk_rej", "mb_valid_signers3_ok", "mb_valid_signers1_ok", "mb_valid_signers3_rej", "mb_clientOk_signers3_rej", "mb_sigOk_signers3_rej"]},
            "assumptions": ["cryptography is abstracted to booleans that the harness realises with real ed25519 votes; forging outside the enumerated mutation classes is not explored",
                            "light-client misbehaviour: equivocation by all signers and by a single >1/3 signer with a different validator set; amnesia attacks (differing rounds) are not constructed"]},
    "C08": {"level": "model_checking", "mc": MC_SLASH, "corpora": [RANDOM, SCRIPTED], "invariants": ["C08_Outstanding"],
            "properties": ["C08_Outcome", "C08_Params", "C08_AckCarried", "C08_AckOnlyThere", "C08_FlagCleared"], "classify": cls_c08,
            "rule": "slash packets received by the provider by (infraction, acknowledgement), VSC packets carrying slash acks, consumer blocks with outstanding flags / pending slash packets",
            "required_classes": {"quick": ["slash_downtime_handled", "consumer_slash_pending"]}, "assumptions": []},
    "C09": {"level": "model_checking", "mc": MC_SLASH, "corpora": [RANDOM, SCRIPTED], "invariants": ["C09_Window"],
            "properties": ["C08_Outcome", "C09_MeterLeAllowance", "C09_OncePerPeriod", "C09_Standby", "C09_HeadStays", "C09_QueueFifo"], "classify": cls_c09,
            "rule": "as C08 plus provider begin-blocks by meter state and consumer send steps by slash-record state",
            "required_classes": {"quick": ["slash_downtime_handled", "meter_full", "send_waiting"]}, "assumptions": []},
    "C10": {"level": "model_checking", "mc": MC_LIFE, "corpora": [RANDOM, SCRIPTED, FAULTS], "invariants": ["C10_InitIffSpawn", "C10_QueueExact"],
            "properties": ["C10_Ids", "C10_PhaseStep", "C10_PhaseCause", "C10_LaunchWhenDue", "C10_LaunchOutcome", "C01_Launch"], "classify": cls_c10,
            "rule": "lifecycle events: creations, updates by phase, launch attempts by outcome, removals",
            "required_classes": {"quick": ["PLaunchOK", "PLaunchFail", "create_ok_spawn", "create_ok_nospawn", "update_initialized_init"]}, "assumptions": []},
    "C11": {"level": "model_checking", "mc": MC_LIFE, "corpora": [RANDOM, SCRIPTED, FAULTS], "invariants": ["C11_DeletedStaysEmpty"],
            "properties": ["C11_NoUpdates", "C11_Stops", "C11_RemoveWhenDue", "C11_Residue"], "classify": cls_c11,
            "rule": "stops by cause, removals by outcome, blocks with stopped consumers present",
            "required_classes": {"quick": ["PRemoveOK", "stopped_present"]}, "assumptions": []},
    "C13": {"level": "model_checking", "mc": MC_HS + MC_VSCFLOW, "corpora": [RANDOM, SCRIPTED, FAULTS], "invariants": [],
            "properties": ["C13_Frame", "C13_FrameOthers"], "classify": cls_c13,
            "rule": "per-consumer operations executed while at least one other consumer exists, by operation and number of consumers",
            "required_classes": {"quick": ["PQueueVSC_with_2_consumers", "Tx:AssignKey_with_2_consumers"]}, "assumptions": []},
    "C14": {"level": "model_checking", "mc": MC_LIFE, "corpora": [RANDOM, SCRIPTED], "invariants": ["C14_TopN"],
            "properties": ["C14_Owner", "C14_Create", "C14_Authority", "C14_Validator", "C14_RejectedUnchanged"], "classify": cls_c14,
            "rule": "provider messages by (type, kind of sender, outcome)",
            "required_classes": {"quick": ["UpdateConsumer_user_rej", "UpdateConsumer_gov_ok", "OptIn_wrongsigner_rej", "UpdateParams_user_rej", "UpdateParams_gov_ok"]}, "assumptions": []},
    "C16": {"level": "model_checking", "mc": MC_REW, "corpora": [REWARDS], "invariants": ["C16_Solvent"],
            "properties": ["C16_Split", "C16_Transmit", "C16_Credit", "C16_OnlyThere", "C16_Payout", "C19_AllocateRollback"], "classify": cls_c16,
            "rule": "consumer reward steps by redistribution fraction, blocks by number of reward transfers, reward receipts, allocations by outcome and set size, fee injections by denom",
            "required_classes": {"quick": ["transmit_1", "reward_recv_ok", "PAllocateOK_members_2", "PAllocateFail_members_2", "fees_photon", "split_frac_7500", "split_frac_0"]},
            "assumptions": ["amounts below 2^31 (TLC integers); sub-unit Dec dust (at most one base unit per participant and allocation) is not flagged",
                            "reward denoms are enabled on the consumer through its own governance authority (the provider-made genesis starts with none)"]},
    "C17": {"level": "model_checking", "mc": MC_HS, "corpora": [SCRIPTED, RANDOM],
            "invariants": ["C17_ClientInjective", "C17_ChannelInjective", "C17_Attribution"],
            "properties": ["C17_Try", "C17_Confirm", "C17_InitAck", "C17_BindingsOnlyThere", "C17_ConsumerInit", "C17_FirstVSC"], "classify": cls_c17,
            "rule": "channel handshake steps by (chain, step, deviation, outcome), launches by kind of client binding, validator-set packets received",
            "required_classes": {"quick": ["p_ChanOpenTry_unordered_rej", "p_ChanOpenTry_version_rej", "p_ChanOpenTry_port_rej", "p_ChanOpenTry_good_ok", "p_ChanOpenTry_good_rej", "p_ChanOpenConfirm_good_ok", "p_ChanOpenConfirm_good_rej", "p_ChanOpenInit_good_rej", "launch_on_connection_failed"]},
            "assumptions": ["IBC core (connection/channel/proof verification) is executed, not modelled; completeness of Try acceptance is asserted only for attempts whose IBC-level inputs the scenario made valid"]},
    "C18": {"level": "exploration", "nondeterministic": True, "mc": [], "corpora": [{"name": "replicas", "n": {"quick": 14, "thorough": 150}, "steps": {"quick": 70, "thorough": 120}}],
            "invariants": ["C18_Agree", "C18_SameLength"], "properties": [], "classify": cls_c18,
            "rule": "each history (seeded random or scripted, the generators of the other properties) is executed on 3 independent application instances in one process; one evaluation = one block whose (app hash, FinalizeBlock response digest) is compared across replicas; classes = provider / consumer blocks and history lengths",
            "required_classes": {"quick": ["block_provider", "block_consumer"]},
            "assumptions": ["replicas run in one process (Go randomises map iteration per range statement); no cross-process or cross-architecture comparison"]},
    "C19": {"level": "fault_enumeration", "mc": MC_LIFE, "corpora": [RANDOM, SCRIPTED, FAULTS, REWARDS], "invariants": ["C19_NoBlockError"],
            "properties": ["C19_LaunchRollback", "C19_FailedStaysRolledBack", "C19_RemoveRollback", "C19_AllocateRollback", "C13_Frame"], "classify": cls_c19,
            "rule": "blocks of every chain, failing consumer operations and failing transactions, by kind",
            "required_classes": {"quick": ["PLaunchFail", "block_p", "block_c"]}, "assumptions": []},
    "C20": {"level": "model_checking", "mc": MC_LIFE, "corpora": [RANDOM, SCRIPTED], "invariants": ["C20_OnePending"],
            "properties": ["C20_Update", "C20_Apply", "C08_Params"], "classify": cls_c20,
            "rule": "infraction-parameter requests by phase and pending state, begin-blocks by schedule length, punishment steps",
            "required_classes": {"quick": ["infr_update_launched_nopending", "infr_update_registered_nopending"]}, "assumptions": []},
}

# ---- texts for MANIFEST.json -----------------------------------------------------------------------------------
_TV = "TLC evaluates the property's formulas on every state/step recorded from the real provider and consumer applications (own genesis, real blocks, real IBC proofs) under a seeded random driver; "
MANIFEST_TEXT = {
    "C01": {"text": _TV + "an exhaustive TLC model of the packet flow (MC_VSCFlow: all next-sets over 3 keys, all relay prefixes, any channel-opening epoch) checks the design within small bounds.",
            "note": "Bounded model (3 keys x powers {0,1}, 4 epochs); real-code conformance only on sampled histories; CometBFT empty-set precondition; ibc-go ordered delivery executed, not modelled."},
    "C02": {"text": _TV + "the code's selection algorithm is transcribed in MC_Shaping and checked exhaustively against the declarative eligibility definition over all small inputs (tokens with tied powers, active-set sizes, opt-ins, lists).",
            "note": "At a launch the active set is accepted as either the recorded consensus set or the top-M of the power index (a validator jailed in the same BeginBlock)."},
    "C03": {"text": _TV + "MC_Shaping checks the transcribed threshold loop and auto-opt-in against the declarative MinPowerTopN for all small inputs.",
            "note": "Threshold reading: greatest power m whose top-down set reaches N percent (DESIGN C03); sticky auto-opt-in is allowed; integer arithmetic (totals < 2^31)."},
    "C04": {"text": _TV + "MC_Shaping transcribes the cap / priority partition / power-cap distribution and checks the documented postconditions exhaustively over small multisets, caps and percentages.",
            "note": "Extreme values (totals near CometBFT's 1.15e18 limit) are checked on the real function with multi-limb arithmetic written in TLA+ (TLC integers are 32-bit); ties in rank are left open as in the statement."},
    "C12": {"text": _TV + "MC_VSCFlow checks id/height bookkeeping exhaustively for one consumer.",
            "note": "The provider's current, not yet packaged id has a recorded height and is not required to be rejected."},
    "C15": {"text": _TV + "MC_Shaping checks top-M selection with ties for all small inputs.",
            "note": "Staking arithmetic is observed environment; ties at the boundary are left open."},
}
_GEN = "TLC evaluates the property's formulas on every state/step recorded from the real provider and consumer applications under the seeded random driver (lifecycle, key, slashing, relay and governance operations, forged packets, timeouts, long time advances)"
for _p, _t, _n in [
    ("C05", "key-assignment acceptance rule, injectivity of the key maps and validator creation", "Injectivity is claimed for active consumers (registered/initialized/launched), as the creation rule in the statement does."),
    ("C06", "attribution of replaced keys until first-stop + unbonding, pruning at the first end-block at/after the deadline", "Ghost records of replaced keys are built by the trace spec from observed assignments."),
    ("C08", "outcome table of slash packets (ack, jailing iff, nobody else, slash-ack queue), acks carried by the next VSC packet, consumer outstanding flags", "Consumer-side invariants are not claimed for a consumer chain that forged packets in that trace; tokens of other validators may change through SDK redelegation slashing and are not compared."),
    ("C09", "meter admission/deduction, meter <= allowance after begin-block, replenish period, window bound via ghosts, consumer standby/retry queue discipline", "The meter may also fall when the allowance shrinks (cap in BeginBlock)."),
    ("C10", "id issuance, phase edges and their causes, queue exactness, due-launch order and limit, launch outcomes", "More than 200 due consumers are covered by the scripted scenario, not the random driver."),
    ("C11", "no updates while stopped, removal time, due removal, residue after deletion", "A consumer stopped twice keeps a later removal-queue entry (prefix 52) that is consumed harmlessly; an expired client leaves the channel open (tolerated)."),
    ("C13", "frame conditions on abstract records and raw per-consumer store digests", "Digests attribute shared time-queue entries per member; provider-wide validator state is excluded by definition."),
    ("C14", "owner / authority / operator checks and rejected-unchanged", "Governance messages are executed as x/gov does (router, cache context); signatures are checked by the SDK ante handler on real signed transactions."),
    ("C19", "no block error on any chain in any generated history; rollback of failed launches/removals/allocations", "A provider without any bonded validator is outside the environment's precondition."),
    ("C20", "immediate vs queued parameter updates, one pending change, application when due, parameters used by punishments", "Fractions are compared as 18-decimal strings."),
]:
    MANIFEST_TEXT[_p] = {"text": _GEN + ": " + _t + ".", "note": _n}
MANIFEST_TEXT["C18"] = {"text": "N-version execution: the specification supplies the histories (random driver and scripted scenarios with ties, many consumers and validators) and a trivial agreement invariant that TLC evaluates on the merged observation trace of 3 replicas; this is exploration, not model checking.",
                        "note": "Same-process replicas; transaction bytes are regenerated deterministically per replica rather than copied.", "technique": "replica execution of generated histories + TLC agreement invariant on the observation trace"}
MANIFEST_TEXT["C07"] = {"text": "MC_Evidence enumerates the mutation lattice of the abstract evidence record x consumer state x key kind x validator state and checks the transcribed chain of checks against the declarative verdict; the harness realises each record with real ed25519 votes (valid record, every single-field mutation, current / assigned / replaced / foreign / unknown keys, twin consumers sharing a chain id, never-launched, stopped and deleted consumers, undelegations and redelegations, repeated submissions) and TLC checks verdict, exactly-the-signer, amounts and rejected-unchanged on the recorded steps.",
                        "note": "Misbehaviour evidence: soundness of acceptance and exactly-the-common-signers are checked; completeness of acceptance is left to the light client. Slash amounts are bounded (consumer fraction x power, plus stake still unbonding), not computed exactly."}
MANIFEST_TEXT["C16"] = {"text": "TLC evaluates, on states recorded from real consumer and provider applications connected by real CCV and transfer channels, the exact fee split and transmission on the consumer, crediting of the sending consumer, pool solvency, and per-(consumer, denom) payout (only eligible members, proportional to power, commission rate, nothing beyond dust lost, other consumers untouched), including allocations with injected failures.",
                        "note": "Integer abstraction of 18-decimal arithmetic with a tolerance of one unit per participant; scripted reward scenario (two consumers sharing the flow, validator-set changes between crediting and payout) rather than the random driver."}
MANIFEST_TEXT["C17"] = {"text": "TLC evaluates binding invariants (consumer/client/channel one-to-one, channel built on the consumer's client) on every recorded provider state and the acceptance rule of every handshake step; a scripted scenario drives every deviation (ordering, ports, version, foreign client, provider-initiated, racing handshakes, repeated attempts, second consumer on the same connection) with real IBC proofs, forged channel ends standing for a compromised consumer.",
                        "note": "IBC core is executed, not modelled. Launch on a connection whose client is already bound was a defect (F2), fixed by c3beaf4."}
MANIFEST_TEXT["C19"]["technique"] = "TLC trace validation of every generated history (block errors, rollback frame conditions); fault enumeration via build-tagged failpoints"
NOT_CLAIMED = {}
