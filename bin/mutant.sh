#!/bin/sh
# usage: mutant.sh <patch.diff> <property id>... : apply a seeded change to /repo, run the quick checks, undo it
PATCH=$1; shift
cd /repo || exit 2
git diff --quiet || { echo "repo not clean"; exit 2; }
git apply "$PATCH" || { echo "patch does not apply"; exit 2; }
for p in "$@"; do
  echo "=== $p on $(basename $(dirname $PATCH))"
  (cd /verif && timeout 3000 bin/verif check $p --tier quick 2>&1 | tail -5; echo "exit=$?")
done
git -C /repo checkout -- . 
git -C /repo status --short | grep -v testdata
