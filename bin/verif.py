#!/usr/bin/env python3
"""Orchestrator for the TLA+ model-based verification of cosmos/interchain-security.

  verif.py setup
  verif.py check <Cnn> [--tier quick|thorough] [--seed N] [--replay PATH]

exit 0: property held on everything explored (or only listed known findings were hit)
exit 1: VIOLATION property=<id> replay=<path>   (a Cnn_* formula failed on real-code behaviour, reproduced)
exit 2: anything else (tool failure, timeout, harness error, model-only violation, vacuity)
"""
import argparse, hashlib, json, os, re, shutil, subprocess, sys, tempfile, time, glob

ROOT = os.path.dirname(os.path.dirname(os.path.abspath(__file__)))
REPO = os.environ.get("VERIF_REPO", "/repo")
CACHE = os.environ.get("VERIF_CACHE", os.path.join(ROOT, ".cache"))
OUTROOT = os.environ.get("VERIF_OUTROOT", ROOT)   # evidence/ and replays/ go here (development runs against patched copies set it)
SPEC = os.path.join(ROOT, "spec")
sys.path.insert(0, os.path.join(ROOT, "bin"))
import props as P  # noqa: E402

GOENV = dict(os.environ, GOFLAGS="-mod=mod", GOPROXY="off")
NCPU = os.cpu_count() or 4


class cache_lock:
    """Exclusive lock per cached artefact: several checks may run at the same time and share the cache."""
    def __init__(self, name):
        self.path = os.path.join(CACHE, "locks", re.sub(r"[^A-Za-z0-9_.-]", "_", name) + ".lock")

    def __enter__(self):
        import fcntl
        os.makedirs(os.path.dirname(self.path), exist_ok=True)
        self.fh = open(self.path, "w")
        fcntl.flock(self.fh, fcntl.LOCK_EX)
        return self

    def __exit__(self, *a):
        import fcntl
        fcntl.flock(self.fh, fcntl.LOCK_UN)
        self.fh.close()


def log(*a):
    print(*a, file=sys.stderr, flush=True)


def src_hash():
    h = hashlib.sha256()
    roots = [os.path.join(REPO, d) for d in ("x", "app", "testutil")] + [os.path.join(ROOT, "harness")]
    files = [os.path.join(REPO, "go.mod")] + sorted(glob.glob(os.path.join(SPEC, "MC_*Gen.tla")) + glob.glob(os.path.join(SPEC, "cfg", "MC_*Gen*.cfg"))
                                                    + [os.path.join(SPEC, "MC_Keys.tla"), os.path.join(SPEC, "MC_Lifecycle.tla")])
    for r in roots:
        for dp, dn, fn in os.walk(r):
            for f in fn:
                if f.endswith(".go") or f in ("go.mod",):
                    files.append(os.path.join(dp, f))
    for f in sorted(files):
        h.update(f.encode())
        try:
            with open(f, "rb") as fh:
                h.update(fh.read())
        except OSError:
            pass
    return h.hexdigest()[:16]


def build_harness(sh):
    with cache_lock("build"):
        return _build_harness(sh)


def _build_harness(sh):
    out = os.path.join(CACHE, "bin", sh, "harness.test")
    if os.path.exists(out):
        return out
    os.makedirs(os.path.dirname(out), exist_ok=True)
    # keep only the most recent binaries
    for d in sorted(glob.glob(os.path.join(CACHE, "bin", "*")), key=os.path.getmtime)[:-3]:
        shutil.rmtree(d, ignore_errors=True)
    hd = os.path.join(ROOT, "harness")
    if os.path.realpath(REPO) != "/repo":
        # a patched copy of the repository (development aid): build a copy of the harness whose go.mod points at it
        hd2 = os.path.join(CACHE, "harness_src", sh)
        shutil.rmtree(hd2, ignore_errors=True)
        shutil.copytree(hd, hd2, ignore=shutil.ignore_patterns("*.test"))
        gm = open(os.path.join(hd2, "go.mod")).read().replace("=> /repo", "=> " + os.path.realpath(REPO))
        open(os.path.join(hd2, "go.mod"), "w").write(gm)
        hd = hd2
    shutil.copy(os.path.join(REPO, "go.sum"), os.path.join(hd, "go.sum"))
    t0 = time.time()
    r = subprocess.run(["go", "test", "-c", "-tags", "verif", "-o", out, "."], cwd=hd, env=GOENV,
                       stdout=subprocess.PIPE, stderr=subprocess.STDOUT, text=True)
    if r.returncode != 0:
        log(r.stdout[-4000:])
        raise SystemExit(2)
    log(f"[build] harness built in {time.time()-t0:.0f}s")
    return out


def gen_corpus(binpath, sh, corpus, seed0, n, steps, extra_env=None):
    with cache_lock(f"corpus_{sh}_{corpus}_{seed0}_{n}_{steps}"):
        return _gen_corpus(binpath, sh, corpus, seed0, n, steps, extra_env)


def _gen_corpus(binpath, sh, corpus, seed0, n, steps, extra_env=None):
    """Generate traces corpus_<seed>.ndjson for seeds seed0..seed0+n-1 (cached per source hash)."""
    d = os.path.join(CACHE, "corpus", sh, f"{corpus}_{seed0}_{n}_{steps}")
    done = os.path.join(d, ".done")
    if os.path.exists(done):
        return d
    shutil.rmtree(d, ignore_errors=True)
    os.makedirs(d)
    # prune old corpora (other source hashes)
    for od in glob.glob(os.path.join(CACHE, "corpus", "*")):
        if os.path.basename(od) != sh:
            shutil.rmtree(od, ignore_errors=True)
    workers = max(1, min(NCPU - 2, n))
    per = (n + workers - 1) // workers
    procs = []
    t0 = time.time()
    for wi in range(workers):
        s0 = seed0 + wi * per
        cnt = min(per, seed0 + n - s0)
        if cnt <= 0:
            break
        env = dict(GOENV, VERIF_OUT=d, VERIF_CORPUS=corpus, VERIF_SEED0=str(s0), VERIF_N=str(cnt), VERIF_STEPS=str(steps))
        if extra_env:
            env.update(extra_env)
        procs.append(subprocess.Popen([binpath, "-test.run", "^TestGen$", "-test.count=1", "-test.timeout=3h"],
                                      cwd=os.path.join(ROOT, "harness"), env=env, stdout=subprocess.PIPE,
                                      stderr=subprocess.STDOUT, text=True))
    bad = False
    for pr in procs:
        out, _ = pr.communicate()
        if pr.returncode != 0:
            bad = True
            log("[gen] harness process failed:\n" + out[-3000:])
    if bad:
        raise SystemExit(2)
    open(done, "w").write("ok")
    log(f"[gen] corpus {corpus} seeds {seed0}..{seed0+n-1}: {len(glob.glob(d+'/*.ndjson'))} traces in {time.time()-t0:.0f}s")
    return d


def gen_schedules(sh, cp, seed, n):
    with cache_lock(f"mbt_{sh}_{cp['name']}_{seed}_{n}"):
        return _gen_schedules(sh, cp, seed, n)


def _gen_schedules(sh, cp, seed, n):
    """TLC -simulate writes one behaviour of the generator spec per file (sched_<i>.ndjson); cached per source hash."""
    m = cp["mbt"]
    d = os.path.join(CACHE, "mbt", sh, f"{cp['name']}_{seed}_{n}")
    done = os.path.join(d, ".done")
    if os.path.exists(done):
        return d
    shutil.rmtree(d, ignore_errors=True)
    os.makedirs(d)
    for od in glob.glob(os.path.join(CACHE, "mbt", "*")):
        if os.path.basename(od) != sh:
            shutil.rmtree(od, ignore_errors=True)
    cfg_text = open(os.path.join(SPEC, "cfg", m["cfg"])).read()
    t0 = time.time()
    rc, out, wall = run_tlc(m["module"], cfg_text, env={"MBT_OUT": d}, workers=1, timeout=m.get("timeout", 1800),
                            extra=["-simulate", f"num={n + 4}", "-depth", str(m["depth"]), "-seed", str(m.get("seed", 7) + seed)])
    if "Error:" in out or rc not in (0,):
        log(out[-3000:])
        print(f"ERROR: schedule generation {m['module']} failed (rc={rc})")
        raise SystemExit(2)
    # TLC numbers the files by its trace counter (which may start at 0 or 1 and skip walks that ended early): renumber 0..
    fs = sorted(glob.glob(os.path.join(d, "sched_*.ndjson")), key=lambda f: int(re.search(r"sched_(\d+)", f).group(1)))
    for i, f in enumerate(fs):
        os.rename(f, os.path.join(d, f"tmp_{i}"))
    for i in range(len(fs)):
        os.rename(os.path.join(d, f"tmp_{i}"), os.path.join(d, f"sched_{i}.ndjson"))
    have = len(fs)
    if have < n:
        print(f"ERROR: schedule generation produced {have} < {n} behaviours")
        raise SystemExit(2)
    open(done, "w").write("ok")
    log(f"[mbt] {m['module']}: {have} behaviours in {wall:.0f}s")
    return d


def run_tlc(module, cfg_text, env=None, workers=1, timeout=1800, extra=None):
    scratch = tempfile.mkdtemp(prefix="tlc_", dir=os.path.join(CACHE, "scratch"))
    try:
        cfgp = os.path.join(scratch, "run.cfg")
        open(cfgp, "w").write(cfg_text)
        cmd = ["timeout", str(timeout), "tlc", "-workers", str(workers), "-metadir", os.path.join(scratch, "meta"),
               "-noGenerateSpecTE", "-config", cfgp] + (extra or []) + [module]
        e = dict(os.environ)
        if env:
            e.update(env)
        t0 = time.time()
        r = subprocess.run(cmd, cwd=SPEC, env=e, stdout=subprocess.PIPE, stderr=subprocess.STDOUT, text=True)
        return r.returncode, r.stdout, time.time() - t0
    finally:
        shutil.rmtree(scratch, ignore_errors=True)


RE_STATES = re.compile(r"(\d+) states generated, (\d+) distinct states found")
RE_VIOL = re.compile(r"Error: (?:Action property|Invariant|Temporal property) ?(\S+) is violated")
RE_VIOL2 = re.compile(r"Error: Invariant (\S+) is violated|Error: Action property (\S+) is violated")


def parse_tlc(out):
    res = {"generated": 0, "distinct": 0, "violated": None, "error": None, "l": None}
    m = None
    for m in RE_STATES.finditer(out):
        pass
    if m:
        res["generated"], res["distinct"] = int(m.group(1)), int(m.group(2))
    mv = RE_VIOL2.search(out)
    if mv:
        res["violated"] = mv.group(1) or mv.group(2)
        ls = re.findall(r"^/\\ l = (\d+)", out, re.M)
        if ls:
            res["l"] = int(ls[-1])
    elif "Error:" in out:
        i = out.index("Error:")
        res["error"] = out[i:i + 1500]
    return res


def tv_cfg(invs, props, consts=None):
    s = "SPECIFICATION Spec\nCHECK_DEADLOCK FALSE\nPOSTCONDITION TraceAccepted\n"
    if invs:
        s += "INVARIANTS\n" + "".join(f"  {x}\n" for x in invs)
    if props:
        s += "PROPERTIES\n" + "".join(f"  {x}\n" for x in props)
    return s


def batches(files, max_bytes=9_000_000):
    cur, size, out = [], 0, []
    for f in files:
        sz = os.path.getsize(f)
        if cur and size + sz > max_bytes:
            out.append(cur)
            cur, size = [], 0
        cur.append(f)
        size += sz
    if cur:
        out.append(cur)
    return out


def validate_traces(files, invs, props, formulas_for_known=None):
    """Run TLC trace validation over the trace files. Returns (n_events, violations[list of dict], errors[list])."""
    os.makedirs(os.path.join(CACHE, "scratch"), exist_ok=True)
    total, viols, errs = 0, [], []
    cfg = tv_cfg(invs, props)
    jobs = []
    for b in batches(files):
        cat = tempfile.NamedTemporaryFile(prefix="batch_", suffix=".ndjson", dir=os.path.join(CACHE, "scratch"), delete=False)
        index = []  # (first line no (1-based), file)
        ln = 0
        for f in b:
            with open(f, "rb") as fh:
                data = fh.read()
            index.append((ln + 1, f))
            ln += data.count(b"\n")
            cat.write(data)
        cat.close()
        jobs.append((cat.name, index, ln))
    # run batches in parallel (each TLC is single-worker)
    from concurrent.futures import ThreadPoolExecutor
    def one(job):
        path, index, ln = job
        rc, out, wall = run_tlc("Trace.tla", cfg, env={"TRACE": path}, workers=1, timeout=3000)
        return job, rc, out
    with ThreadPoolExecutor(max_workers=max(1, min(10, NCPU - 4))) as ex:
        results = list(ex.map(one, jobs))
    for (path, index, ln), rc, out in results:
        r = parse_tlc(out)
        total += r["generated"]
        if r["violated"]:
            l = r["l"] or 0
            f0, first = None, 0
            for (start, f) in index:
                if start <= l:
                    f0, first = f, start
            viols.append({"formula": r["violated"], "file": f0, "event": l - first + 1, "batch_line": l})
        elif r["error"] or rc != 0 or r["generated"] != ln:
            errs.append((r["error"] or out[-1500:]) + f"\n(rc={rc}, generated={r['generated']}, lines={ln})")
        os.unlink(path)
    return total, viols, errs


def load_known():
    p = os.path.join(ROOT, "known_findings.json")
    if os.path.exists(p):
        return json.load(open(p))
    return {"findings": []}


def write_evidence(pid, ev):
    os.makedirs(os.path.join(OUTROOT, "evidence"), exist_ok=True)
    with open(os.path.join(OUTROOT, "evidence", f"{pid}.json"), "w") as f:
        json.dump(ev, f, indent=1)


def resolve_delta(prev, s):
    """Provider snapshots are written as deltas (harness/world.go providerDelta); same rule as Trace.tla ProvState."""
    cur = dict(prev)
    cur.update(s.get("d", {}))
    cons = dict(prev.get("cons", {}))
    cons.update(s["dc"])
    cur["cons"] = cons
    if "dg" in s:
        dig = dict(prev.get("dig", {}))
        for k, v in s["dg"].items():
            if k in ("cons", "prefixes"):
                m = {x: y for x, y in prev.get("dig", {}).get(k, {}).items() if x not in s["dgr"].get(k, [])}
                m.update(v)
                dig[k] = m
            else:
                dig[k] = v
        cur["dig"] = dig
    return cur


def trace_stats(files, classify):
    """Coverage measured on the traces: distinct non-trivial event classes, as defined per property."""
    classes = {}
    samples = []
    nev = 0
    for f in files:
        last = {}
        with open(f) as fh:
            for line in fh:
                e = json.loads(line)
                nev += 1
                ch = e["chain"]
                if "same" in e["s"]:
                    e["s"] = last.get(ch, {})
                elif "dc" in e["s"]:
                    e["s"] = last[ch] = resolve_delta(last.get(ch, {}), e["s"])
                else:
                    last[ch] = e["s"]
                for cl in classify(e):
                    if cl not in classes:
                        classes[cl] = 0
                        if len(samples) < 6:
                            samples.append({"trace": os.path.basename(f), "i": e["i"], "a": e["a"], "args": e["args"], "res": e["res"], "class": cl})
                    classes[cl] += 1
    return nev, classes, samples


def save_replay(pid, v, corpus, tier, vseed=0):
    ts = time.strftime("%Y%m%d_%H%M%S")
    d = os.path.join(OUTROOT, "replays", pid, ts)
    os.makedirs(d, exist_ok=True)
    if v.get("file"):
        shutil.copy(v["file"], os.path.join(d, "trace.ndjson"))
    base = os.path.basename(v.get("file") or "")
    m = re.match(r"(.+)_(\d+)\.ndjson", base)
    info = {"property": pid, "formula": v["formula"], "event": v["event"], "corpus": m.group(1) if m else corpus,
            "seed": int(m.group(2)) if m else None, "tier": tier, "vseed": vseed}
    cp = next((c for c in P.PROPS[pid]["corpora"] if c["name"] == info["corpus"]), None)
    if cp is not None:
        info["n"] = cp["n"][tier]
    json.dump(info, open(os.path.join(d, "info.json"), "w"), indent=1)
    return d


def regen_one(binpath, sh, prop, info, tier, fresh=False):
    """Regenerate the single trace a violation / replay refers to."""
    cp = next((c for c in prop["corpora"] if c["name"] == info["corpus"]), None)
    if cp is not None and "mbt" in cp:
        sd = gen_schedules(sh, cp, info.get("vseed", 0), info.get("n", cp["n"][tier]))
        steps, env = f"s{info.get('vseed', 0)}", {"VERIF_MBT_DIR": sd}
    else:
        steps, env = P.steps_for(info["corpus"], tier), None
    if fresh:
        shutil.rmtree(os.path.join(CACHE, "corpus", sh, f"{info['corpus']}_{info['seed']}_1_{steps}"), ignore_errors=True)
    return gen_corpus(binpath, sh, info["corpus"], info["seed"], 1, steps, extra_env=env)


def check(pid, tier, seed, replay=None):
    t0 = time.time()
    prop = P.PROPS[pid]
    os.makedirs(os.path.join(CACHE, "scratch"), exist_ok=True)
    sh = src_hash()
    binpath = build_harness(sh)
    if tier == "quick" and not replay and not os.environ.get("VERIF_NO_PREGEN"):
        bd = os.path.join(CACHE, "corpus", sh, f"{P.BULK['name']}_{P.BULK.get('seed0', 1)}_{P.BULK['n'][tier]}_{P.steps_for(P.BULK['name'], tier)}")
        if not os.path.exists(os.path.join(bd, ".done")):
            try:
                subprocess.Popen([sys.executable, os.path.abspath(__file__), "pregen", "--tier", tier], stdout=subprocess.DEVNULL,
                                 stderr=subprocess.DEVNULL, start_new_session=True, env=dict(os.environ, VERIF_NO_PREGEN="1"))
            except OSError:
                pass
    cov = {"samples": []}
    assumptions = list(prop.get("assumptions", []))
    states = transitions = 0
    mc_notes = []
    # ---- (M) exhaustive / simulated model checking of the design ----
    if not replay:
        for mc in prop.get("mc", []):
            if mc.get("tier") == "thorough" and tier != "thorough":
                continue
            cfgp = os.path.join(SPEC, "cfg", mc["cfg"])
            cfg_text = open(cfgp).read()
            # the model runs do not depend on /repo: a clean result is remembered per (module, Props, cfg) content
            hk = hashlib.sha256()
            for fpath in (os.path.join(SPEC, mc["module"]), os.path.join(SPEC, "Props.tla")):
                hk.update(open(fpath, "rb").read())
            hk.update(cfg_text.encode() + repr(mc.get("extra")).encode())
            memo = os.path.join(CACHE, "mc", hk.hexdigest()[:20] + ".json")
            if os.path.exists(memo) and not os.environ.get("VERIF_NO_MC_MEMO"):
                r0 = json.load(open(memo))
                states += r0["distinct"]
                transitions += r0["generated"]
                mc_notes.append(dict(r0, memo=True))
                continue
            rc, out, wall = run_tlc(mc["module"], cfg_text, workers=mc.get("workers", max(2, NCPU - 2)),
                                    timeout=mc.get("timeout", 900), extra=mc.get("extra"))
            r = parse_tlc(out)
            if r["violated"]:
                log(out[-3000:])
                print(f"MODEL-VIOLATION property={pid} formula={r['violated']} in {mc['module']} (design-level; not a verdict on the code)")
                return 2
            if r["error"] or rc != 0:
                log(out[-3000:])
                print(f"ERROR: model checking {mc['module']} failed (rc={rc})")
                return 2
            states += r["distinct"]
            transitions += r["generated"]
            note = {"module": mc["module"], "cfg": mc["cfg"], "distinct": r["distinct"], "generated": r["generated"], "wall_s": round(wall, 1)}
            mc_notes.append(note)
            if r["distinct"] > 0:
                os.makedirs(os.path.dirname(memo), exist_ok=True)
                json.dump(note, open(memo, "w"))
    # ---- (V) conformance: traces recorded from the real code, validated by TLC ----
    files = []
    if replay:
        info = json.load(open(os.path.join(replay, "info.json")))
        d = regen_one(binpath, sh, prop, info, tier)
        files = sorted(glob.glob(d + "/*.ndjson"))
    else:
        # corpora with few, long traces are generated in the background while the others are produced
        import concurrent.futures
        pool = concurrent.futures.ThreadPoolExecutor(max_workers=2)
        slow = {}
        for cp in prop["corpora"]:
            if cp.get("slow") and cp["n"][tier] > 0:
                seed0 = cp.get("seed0", 1) + (seed * 100000 if cp.get("seeded", True) else 0)
                slow[cp["name"]] = pool.submit(gen_corpus, binpath, sh, cp["name"], seed0, cp["n"][tier],
                                               cp.get("steps", {}).get(tier, P.steps_for(cp["name"], tier)))
        for cp in prop["corpora"]:
            n = cp["n"][tier]
            if n <= 0:
                continue
            seed0 = cp.get("seed0", 1) + (seed * 100000 if cp.get("seeded", True) else 0)
            if cp["name"] in slow:
                d = slow[cp["name"]].result()
            elif "mbt" in cp:
                sd = gen_schedules(sh, cp, seed, n)
                d = gen_corpus(binpath, sh, cp["name"], 0, n, f"s{seed}", extra_env={"VERIF_MBT_DIR": sd})
            else:
                d = gen_corpus(binpath, sh, cp["name"], seed0, n, cp.get("steps", {}).get(tier, P.steps_for(cp["name"], tier)))
            files += sorted(glob.glob(d + "/*.ndjson"))
            herr = glob.glob(d + "/*.harness_error")
            if herr:
                log(f"[gen] {len(herr)} harness errors, e.g. {open(herr[0]).read()[:500]}")
                if len(herr) > max(1, n // 10):
                    print("ERROR: too many harness errors")
                    return 2
    nev, viols, errs = validate_traces(files, prop["invariants"], prop["properties"])
    if errs:
        log("\n".join(errs)[:4000])
        print("ERROR: trace validation failed for a reason that is not a property formula")
        return 2
    known = [k for k in load_known()["findings"] if k.get("property") == pid and k.get("status") == "open"]
    exit_code = 0
    real_viol = 0
    for v in viols:
        # reproduce: regenerate that one trace and validate again
        rp = save_replay(pid, v, "", tier, seed)
        info = json.load(open(os.path.join(rp, "info.json")))
        matched = None
        for k in known:
            if k.get("formula") == v["formula"] and k.get("corpus") == info["corpus"] and k.get("seed") == info["seed"]:
                matched = k
        if matched:
            print(f"KNOWN-FINDING: property={pid} {matched['what']}")
            shutil.rmtree(rp, ignore_errors=True)
            continue
        if info["seed"] is not None and not prop.get("nondeterministic"):
            d = regen_one(binpath, sh, prop, info, tier, fresh=True)
            _, v2, e2 = validate_traces(sorted(glob.glob(d + "/*.ndjson")), prop["invariants"], prop["properties"])
            if not v2:
                print(f"ERROR: violation of {v['formula']} not reproduced on re-run; not reported as a violation")
                return 2
        real_viol += 1
        print(f"VIOLATION property={pid} replay={rp}")
        log(f"  formula {v['formula']} at event {v['event']} of {v['file']}")
        exit_code = 1
    # ---- coverage ----
    nev2, classes, samples = trace_stats(files, prop["classify"])
    need = prop.get("required_classes", {}).get(tier, prop.get("required_classes", {}).get("quick", []))
    missing = [c for c in need if c not in classes] if not replay else []
    cov.update({
        "states": states + nev, "transitions": transitions + nev,
        "model_states": states, "model_transitions": transitions,
        "traces_validated_against_impl": len(files),
        "impl_steps_validated": nev,
        "evaluations": nev2, "distinct_nontrivial": len(classes),
        "rule": prop["rule"], "classes": classes, "samples": samples or [{"note": "no sample"}],
        "mc_runs": mc_notes, "formulas": prop["invariants"] + prop["properties"],
        "exhaustive": False,
    })
    ev = {"property_id": pid, "tier": tier, "seed": seed, "level": prop["level"], "coverage": cov,
          "assumptions": assumptions, "wall_s": round(time.time() - t0, 1), "violations": real_viol}
    write_evidence(pid, ev)
    if exit_code == 0 and missing:
        print(f"ERROR: coverage obligations not met (vacuous): {missing}")
        return 2
    return exit_code


def setup():
    os.makedirs(os.path.join(CACHE, "scratch"), exist_ok=True)
    sh = src_hash()
    build_harness(sh)
    # syntax check of the specs the registered checks use
    mods = {"Trace.tla", "Props.tla"}
    for pr in P.PROPS.values():
        for mc in pr.get("mc", []):
            mods.add(mc["module"])
    for f in sorted(mods):
        r = subprocess.run(["timeout", "120", "tla-sany", f], cwd=SPEC, stdout=subprocess.PIPE, stderr=subprocess.STDOUT, text=True)
        if r.returncode != 0 or "Semantic errors" in r.stdout or "*** Errors" in r.stdout:
            log(r.stdout[-2000:])
            print("ERROR: SANY failed for", f)
            return 2
    for d in glob.glob(os.path.join(SPEC, "states")) + glob.glob(os.path.join(SPEC, "*.tlacache")):
        shutil.rmtree(d, ignore_errors=True)
    print("setup ok")
    return 0


def main():
    ap = argparse.ArgumentParser()
    sub = ap.add_subparsers(dest="cmd")
    sub.add_parser("setup")
    c = sub.add_parser("check")
    c.add_argument("pid")
    c.add_argument("--tier", default=os.environ.get("VERIF_TIER", "quick"))
    c.add_argument("--seed", type=int, default=int(os.environ.get("VERIF_SEED", "0") or 0))
    c.add_argument("--replay")
    g = sub.add_parser("pregen")
    g.add_argument("--tier", default="quick")
    a = ap.parse_args()
    if a.cmd == "setup":
        sys.exit(setup())
    if a.cmd == "pregen":
        # generate the slow corpora of the current tree ahead of the checks that need them (started in the background by
        # the first check that runs; the cache lock makes a check that needs the corpus wait for it)
        sh = src_hash()
        binpath = build_harness(sh)
        for cp in (P.BULK,):
            if cp["n"][a.tier] > 0:
                gen_corpus(binpath, sh, cp["name"], cp.get("seed0", 1), cp["n"][a.tier], P.steps_for(cp["name"], a.tier))
        sys.exit(0)
    if a.cmd == "check":
        if a.tier not in ("quick", "thorough"):
            a.tier = "quick"
        sys.exit(check(a.pid, a.tier, a.seed, a.replay))
    ap.print_help()
    sys.exit(2)


if __name__ == "__main__":
    main()
