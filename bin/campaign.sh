#!/bin/bash
# usage: campaign.sh <outdir> <parallel> <id>...   (development aid)
# For each seeded change seeded/<id>: make a scratch worktree of /repo, apply the patch THERE (never in /repo), run the
# quick check of its property against that copy (VERIF_REPO) with its own cache and output root, record the verdict,
# remove the worktree and the cache.
cd "$(dirname "$0")/.."
VROOT=$(pwd); OUT=$1; PAR=$2; shift 2
mkdir -p $OUT
run_one() {
  id=$1
  pid=$(python3 -c "import json;print(json.load(open('$VROOT/seeded/$id/meta.json'))['property'])")
  wt=/tmp/mw_$id
  git -C /repo worktree remove --force $wt 2>/dev/null
  git -C /repo worktree add --detach -q $wt HEAD || { echo "$id worktree failed" > $OUT/$id.verdict; return; }
  if ! git -C $wt apply $VROOT/seeded/$id/patch.diff; then echo "$id property=$pid PATCH-DOES-NOT-APPLY" > $OUT/$id.verdict; git -C /repo worktree remove --force $wt; return; fi
  s=$(date +%s)
  VERIF_REPO=$wt VERIF_CACHE=/tmp/mc_$id VERIF_OUTROOT=$OUT/out_$id timeout 7200 $VROOT/bin/verif check $pid --tier quick > $OUT/$id.log 2>&1
  rc=$?
  e=$(( $(date +%s) - s ))
  echo "$id property=$pid rc=$rc ${e}s $(grep -E 'VIOLATION|formula|ERROR|MODEL-VIOLATION' $OUT/$id.log | head -3 | tr '\n' ' ')" > $OUT/$id.verdict
  git -C /repo worktree remove --force $wt
  rm -rf /tmp/mc_$id
}
export -f run_one; export VROOT OUT
printf '%s\n' "$@" | xargs -P $PAR -I{} bash -c 'run_one {}'
cat $OUT/*.verdict
