#!/bin/bash
# usage: coverage.sh [outdir] : run every quick model configuration with TLC's -coverage and list the actions that were
# never taken in the FINAL coverage report (development aid; vacuity check of the models, see DESIGN 0.9)
OUT=${1:-/tmp/verif_cov}; mkdir -p $OUT; cd "$(dirname "$0")/../spec"
for pair in "MC_VSCFlow.tla MC_VSCFlowA" "MC_Keys.tla MC_KeysQ" "MC_Lifecycle.tla MC_LifecycleQ" "MC_Slash.tla MC_SlashQ" "MC_Handshake.tla MC_HandshakeQ" \
            "MC_Rewards.tla MC_RewardsQ" "MC_Rewards.tla MC_RewardsF" "MC_Evidence.tla MC_EvidenceQ" "MC_Shaping.tla MC_ShapingEligQ" "MC_Shaping.tla MC_ShapingCapQ"; do
  set -- $pair
  timeout 3000 tlc -workers 4 -coverage 1 -metadir $OUT/meta_$2 -noGenerateSpecTE -config cfg/$2.cfg $1 > $OUT/$2.out 2>&1
  python3 - $OUT/$2.out <<'PY'
import sys, re
t = open(sys.argv[1]).read()
rep = t[t.rfind('The coverage statistics at'):]
zeros = [re.sub(r' line.*', '', l) for l in rep.splitlines() if re.match(r'^<.*>: 0:0', l)]
m = re.findall(r'(\d+) distinct states found', t)
print(sys.argv[1].split('/')[-1], 'distinct', m[-1] if m else '?', 'never taken:', zeros)
PY
done
