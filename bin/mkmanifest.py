#!/usr/bin/env python3
"""Regenerates MANIFEST.json from bin/props.py (claimed checks) and properties.jsonl (everything else -> not_applicable)."""
import json, os, subprocess, sys
ROOT = os.path.dirname(os.path.dirname(os.path.abspath(__file__)))
sys.path.insert(0, os.path.join(ROOT, "bin"))
import props as P

props = [json.loads(l) for l in open(os.path.join(ROOT, "properties.jsonl"))]
hook_commits = subprocess.run(["git", "-C", "/repo", "log", "--format=%h %s"], stdout=subprocess.PIPE, text=True).stdout.splitlines()
hook_commits = [l.split()[0] for l in hook_commits if "verif hook" in l]

TEXT = P.MANIFEST_TEXT
checks = []
for p in props:
    pid = p["id"]
    if pid not in P.PROPS:
        continue
    pr = P.PROPS[pid]
    t = TEXT.get(pid, {})
    checks.append({
        "property_id": pid,
        "quick_cmd": f"bin/verif check {pid} --tier quick",
        "thorough_cmd": f"bin/verif check {pid} --tier thorough",
        "evidence_file": f"/verif/evidence/{pid}.json",
        "replay_cmd_template": f"bin/verif check {pid} --replay {{path}}",
        "engine": "tla-trace-validation",
        "level_claimed": {"category": pr["level"], "text": t.get("text", ""), "design_ref": f"DESIGN.md section 3, {pid}"},
        "level_note": t.get("note", ""),
        "technique": t.get("technique", "TLA+ spec + TLC: exhaustive family model, and TLC trace validation of states recorded from the real apps"),
    })
na = [{"property_id": p["id"], "reason": P.NOT_CLAIMED.get(p["id"], "check under construction; not yet claimed")} for p in props if p["id"] not in P.PROPS]
m = {
    "version": 1,
    "setup_cmd": "bin/verif setup",
    "hooks": {"guard": "verif", "enable": "go test -c -tags verif in /verif/harness (module verifharness, replace github.com/cosmos/interchain-security/v7 => /repo)",
              "baseline_off_cmd": "cd /repo && GOFLAGS=-mod=mod go test -vet=off -count=1 -timeout 25m ./...",
              "source_commits": hook_commits, "add_only": True},
    "engines": [
        {"name": "tla-trace-validation", "path": "/verif/spec/Trace.tla", "serves_properties": sorted(P.PROPS), "kind_free_text": "TLC evaluates the Cnn_* formulas of Trace.tla on states/steps recorded by /verif/harness from the real provider and consumer applications"},
        {"name": "tlc-family-models", "path": "/verif/spec/MC_*.tla", "serves_properties": sorted(p for p in P.PROPS if P.PROPS[p].get("mc")), "kind_free_text": "exhaustive TLC runs of family sub-models under small constants"},
        {"name": "tlc-generated-behaviour-replay", "path": "/verif/spec/MC_*Gen.tla", "serves_properties": sorted(p for p in P.PROPS if any("mbt" in c for c in P.PROPS[p]["corpora"])),
         "kind_free_text": "tlc -simulate generates behaviours of the family models; /verif/harness/mbt.go replays them on the real provider block by block and TLC (Trace.tla, MBT_* formulas) compares the observed state with the model after every message and block"},
    ],
    "checks": checks,
    "notes": "Model-based verification with an explicit TLA+ specification; see DESIGN.md. Exit codes: 0 held, 1 VIOLATION (real-code behaviour), 2 tool/harness/vacuity problem.",
    "not_applicable": na,
}
json.dump(m, open(os.path.join(ROOT, "MANIFEST.json"), "w"), indent=1)
print("checks:", [c["property_id"] for c in checks], "not claimed:", len(na))
