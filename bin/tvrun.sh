#!/bin/sh
# usage: tvrun.sh <cfg> <trace-file-or-dir> : run trace validation and print the verdict + failing event
CFG=$1; SRC=$2
TMP=$(mktemp -d /tmp/tv.XXXXXX)
if [ -d "$SRC" ]; then cat "$SRC"/*.ndjson > $TMP/all.nd; else cp "$SRC" $TMP/all.nd; fi
cd ${SPECDIR:-/verif/spec} && TRACE=$TMP/all.nd timeout 900 tlc -workers 1 -metadir $TMP/meta -noGenerateSpecTE -config $CFG Trace.tla > $TMP/out.txt 2>&1
grep -n "Error:\|violated\|states generated" $TMP/out.txt | head -8
L=$(grep "^/\\\\ l = " $TMP/out.txt | tail -1 | sed 's/.*= //')
echo "l=$L"
if [ -n "$L" ]; then python3 - "$TMP/all.nd" "$L" <<'PY'
import json,sys
ev=[json.loads(l) for l in open(sys.argv[1])]
L=int(sys.argv[2])
e=ev[L-1]
print("EVENT", L, e['chain'], e['a'], json.dumps(e['args'])[:400], json.dumps(e['res'])[:300])
PY
fi
echo "out: $TMP/out.txt  trace: $TMP/all.nd"
