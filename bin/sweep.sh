#!/bin/bash
# usage: bin/sweep.sh <tier> [ids...]   (VERIF_SEED from the environment)
# Runs the registered checks one after the other and prints one line per check.
cd "$(dirname "$0")/.."
tier=${1:-quick}; shift
ids=${@:-C01 C02 C03 C04 C05 C06 C07 C08 C09 C10 C11 C12 C13 C14 C15 C16 C17 C18 C19 C20}
bin/verif setup >/dev/null 2>&1
rc_all=0
for p in $ids; do
  s=$(date +%s)
  out=$(bin/verif check $p --tier $tier 2>&1); rc=$?
  e=$(( $(date +%s) - s ))
  echo "SWEEP seed=${VERIF_SEED:-0} tier=$tier $p rc=$rc ${e}s $(echo "$out" | grep -E 'VIOLATION|KNOWN-FINDING|MODEL-VIOLATION|missing|ERROR' | head -3 | tr '\n' ' ')"
  [ $rc -ne 0 ] && rc_all=1
done
exit $rc_all
