----------------------------- MODULE MC_KeysGen -----------------------------
(***************************************************************************)
(* Schedule generator for the key-assignment family (C05, C06): the        *)
(* actions of MC_Keys, restricted to behaviours the real provider can be   *)
(* driven through block by block, with a history variable that TLC writes  *)
(* out as one ndjson file per simulated behaviour.  The Go harness         *)
(* (harness/mbt.go) replays each behaviour on the real application: the    *)
(* actions between two Ticks become the transactions of ONE provider       *)
(* block, a Tick is the end of that block, and Trace.tla compares the      *)
(* provider's observed key state with the state recorded here after every  *)
(* transaction and after every block (formulas MBT_KeysStep/MBT_KeysTick). *)
(*                                                                         *)
(* Restrictions that make a behaviour realisable:                          *)
(*   - Launch(c) and DeleteConsumer(c) happen in BeginBlock: only as the   *)
(*     first steps after a Tick (pos = "begin"); deletion happens exactly  *)
(*     U ticks after the stop and cannot be skipped (DueDelete);           *)
(*   - messages are signed by existing validators (v \in DOMAIN prov);     *)
(*   - RemoveValidator is left out (it needs an unbonding period of        *)
(*     undelegations in the real staking module);                          *)
(*   - every block carries at most MaxTx messages (`left`), so that a      *)
(*     random walk advances time instead of only sending messages.         *)
(***************************************************************************)
EXTENDS MC_Keys, Json, TLC, IOUtils

CONSTANTS LaunchedAtStart,   \* consumers that are already launched in the first state
          MaxTx,
          StopFrom           \* stops only from this tick on, and only as the first message of a full block: a random
                             \* walk picks among the disjuncts of GNext uniformly, and stopped consumers reject everything

MC_ProvKeyH3 == ("v1" :> "pk1") @@ ("v2" :> "pk2") @@ ("v3" :> "pk3")

VARIABLES hist, pos, stopT, left
gvars == <<vars, hist, pos, stopT, left>>

DueDelete == { c \in Consumers : phase[c] = "stopped" /\ stopT[c] + U <= now }

Snapshot == [ now |-> now', phase |-> phase', prov |-> prov', valKey |-> valKey', keyVal |-> keyVal',
              toPrune |-> toPrune' ]
Rec == hist' = Append(hist, [lbl |-> lbl', st |-> Snapshot])

GInit ==
  /\ prov = ProvKey0
  /\ phase = [c \in Consumers |-> IF c \in LaunchedAtStart THEN "launched" ELSE "registered"]
  /\ valKey = [c \in Consumers |-> << >>]
  /\ keyVal = [c \in Consumers |-> << >>]
  /\ toPrune = [c \in Consumers |-> {}]
  /\ now = 0 /\ replaced = {} /\ lbl = Lbl("Init", "-", "-", "-", TRUE)
  /\ hist = << >> /\ pos = "begin" /\ stopT = [c \in Consumers |-> 0] /\ left \in 0..MaxTx

Msg == DueDelete = {} /\ left > 0 /\ left' = left - 1 /\ pos' = "mid"

GNext ==
  \/ /\ pos = "begin" /\ \E c \in DueDelete : DeleteConsumer(c)
     /\ UNCHANGED <<pos, stopT, left>> /\ Rec
  \/ /\ pos = "begin" /\ \E c \in Consumers : Launch(c)
     /\ UNCHANGED <<pos, stopT, left>> /\ Rec
  \/ /\ Msg /\ \E v \in DOMAIN prov, c \in Consumers, k \in Keys : Assign(v, c, k)
     /\ UNCHANGED stopT /\ Rec
  \/ /\ Msg /\ now >= StopFrom /\ left = MaxTx
     /\ \E c \in Consumers : (Stop(c) /\ stopT' = [stopT EXCEPT ![c] = now])
     /\ Rec
  \/ /\ Msg /\ \E x \in Creatable, k \in Keys : CreateValidator(x, k)
     /\ UNCHANGED stopT /\ Rec
  \/ /\ DueDelete = {} /\ Tick /\ pos' = "begin" /\ left' \in 0..MaxTx
     /\ UNCHANGED stopT /\ Rec

GSpec == GInit /\ [][GNext]_gvars

\* TLC evaluates invariants on every candidate successor of a random walk, so the behaviour is written out once, when
\* the walk reaches the last tick (run with a -depth that is never the limiting factor)
Dump ==
  (lbl.a = "Tick" /\ now = MaxTime) =>
    ndJsonSerialize(IOEnv.MBT_OUT \o "/sched_" \o ToString(TLCGet("stats").traces) \o ".ndjson", hist)

\* the properties of MC_Keys hold on the restricted behaviours too (checked while generating)
GenInv == C05_Injective /\ C06_Attributable /\ C06_Free /\ C06_PruneListed
=============================================================================
