---------------------------- MODULE MC_Handshake ----------------------------
(***************************************************************************)
(* Family model: how the provider binds consumers, IBC light clients and   *)
(* CCV channels (C17, provider part of C13).  Clients, connections and     *)
(* channel attempts are created by anybody (IBC is permissionless); the    *)
(* provider module only sees its callbacks.  One action per callback /     *)
(* critical section:                                                       *)
(*                                                                         *)
(*  CreateForeignClient(id)  core IBC MsgCreateClient by a third party for *)
(*                           any chain id (chain ids are not unique)       *)
(*  ConnOpen(cl)             core IBC connection on an existing client     *)
(*  LaunchNewClient(c)       consumer_lifecycle.go LaunchConsumer ->       *)
(*                           CreateConsumerClient (ConnectionId == ""):    *)
(*                           clientKeeper.CreateClient; SetConsumerClientId*)
(*  LaunchOnConnection(c,cn) LaunchConsumer -> MakeConsumerGenesis with    *)
(*                           ConnectionId set: connection found, client is *)
(*                           tendermint, client chain id == consumer chain *)
(*                           id, then SetConsumerClientId(c, client) --    *)
(*                           the code does NOT look at ClientIdToConsumerId*)
(*                           (AllowSharedConnection = TRUE is the code;    *)
(*                           FALSE adds the missing "client not yet bound" *)
(*                           guard, i.e. switches the sharing off)         *)
(*  ChanOpenTry(kind, cn)    provider ibc_module.go OnChanOpenTry:         *)
(*                           validateCCVChannelParams (ORDERED, bound      *)
(*                           port), counterparty port, version, then       *)
(*                           keeper.go VerifyConsumerChain (one hop, client*)
(*                           of the connection -> ClientIdToConsumerId ->  *)
(*                           ConsumerClientId equal -> no channel yet)     *)
(*  ChanOpenConfirm(ch)      OnChanOpenConfirm -> keeper.go                *)
(*                           SetConsumerChain: consumer by client; if the  *)
(*                           consumer already has a channel the callback   *)
(*                           returns ErrDuplicateChannel (the doc comment  *)
(*                           says "close the channel", the code only       *)
(*                           fails the transaction: the duplicate stays in *)
(*                           TRYOPEN for ever); else both channel mappings *)
(*  ChanOpenInit/Ack         OnChanOpenInit / OnChanOpenAck: always errors *)
(*  Stop(c)                  StopAndPrepareForConsumerRemoval              *)
(*  TimeoutClose(c)          ordered channel times out: core IBC closes    *)
(*                           the channel, relay.go OnTimeoutPacket stops   *)
(*                           the consumer                                  *)
(*  Delete(c)                DeleteConsumerChain: DeleteConsumerClientId   *)
(*                           (drops the reverse entry of the consumer's    *)
(*                           client WHOEVER it points to), chanCloseInit,  *)
(*                           DeleteConsumerIdToChannelId,                  *)
(*                           DeleteChannelIdToConsumerId                   *)
(*                                                                         *)
(* SetConsumerClientId is transcribed with its reverse-index handling      *)
(* (delete the reverse entry of the previous client, overwrite the reverse *)
(* entry of the new one).  The consumer side (consumer/ibc_module.go       *)
(* OnChanOpenInit / OnChanOpenAck, VerifyProviderChain, OnRecvVSCPacket    *)
(* adopting the channel of the first packet) only decides which INIT ends  *)
(* exist on the counterparty; for the provider an attempt is an arbitrary  *)
(* tuple, so every tuple kind is tried.                                    *)
(*                                                                         *)
(* Ghosts (not in the VIEW): act (last callback and its verdict), opened   *)
(* (every completed handshake).                                            *)
(***************************************************************************)
EXTENDS Props

CONSTANTS Consumers, ChainIdOf,   \* consumer |-> chain id (two consumers may use one chain id)
          ChainIds,
          MaxClients, MaxConns, MaxChans, MaxForeign,
          AllowSharedConnection

MC_ChainIdsAAB == [ c \in Consumers |-> IF c = "c3" THEN "B" ELSE "A" ]
MC_ChainIdsAA  == [ c \in Consumers |-> "A" ]

VARIABLES
  phase,      \* consumer |-> "initialized" | "launched" | "stopped" | "deleted"
  clients,    \* sequence: client id |-> chain id tracked by the client
  conns,      \* sequence: connection id |-> client id
  chans,      \* sequence: provider channel id |-> [conn, order, state]
  client,     \* ConsumerIdToClientId (partial function)
  clientRev,  \* ClientIdToConsumerId (partial function)
  chan,       \* ConsumerIdToChannelId
  chanRev,    \* ChannelIdToConsumerId
  nForeign,
  act, opened

vars == <<phase, clients, conns, chans, client, clientRev, chan, chanRev, nForeign, act, opened>>
view == <<phase, clients, conns, chans, client, clientRev, chan, chanRev, nForeign>>
real == <<phase, clients, conns, chans, client, clientRev, chan, chanRev>>

Without(f, k) == [ x \in DOMAIN f \ {k} |-> f[x] ]
With(f, k, v) == (k :> v) @@ f

Init ==
  /\ phase = [ c \in Consumers |-> "initialized" ]
  /\ clients = << >> /\ conns = << >> /\ chans = << >>
  /\ client = << >> /\ clientRev = << >> /\ chan = << >> /\ chanRev = << >>
  /\ nForeign = 0
  /\ act = [name |-> "Init", ok |-> TRUE] /\ opened = << >>

Act(n, ok) == [name |-> n, ok |-> ok]

CreateForeignClient(id) ==
  /\ Len(clients) < MaxClients /\ nForeign < MaxForeign
  /\ clients' = Append(clients, id) /\ nForeign' = nForeign + 1
  /\ act' = Act("CreateForeignClient", TRUE)
  /\ UNCHANGED <<phase, conns, chans, client, clientRev, chan, chanRev, opened>>

ConnOpen(cl) ==
  /\ Len(conns) < MaxConns
  /\ conns' = Append(conns, cl)
  /\ act' = Act("ConnOpen", TRUE)
  /\ UNCHANGED <<phase, clients, chans, client, clientRev, chan, chanRev, nForeign, opened>>

\* keeper.go SetConsumerClientId, returns the two maps
SetClient(c, cl) ==
  LET rev0 == IF Has(client, c) THEN Without(clientRev, client[c]) ELSE clientRev
  IN  [fwd |-> With(client, c, cl), rev |-> With(rev0, cl, c)]

LaunchNewClient(c) ==
  /\ phase[c] = "initialized" /\ Len(clients) < MaxClients
  /\ clients' = Append(clients, ChainIdOf[c])
  /\ LET b == SetClient(c, Len(clients) + 1) IN client' = b.fwd /\ clientRev' = b.rev
  /\ phase' = [phase EXCEPT ![c] = "launched"]
  /\ act' = Act("LaunchNewClient", TRUE)
  /\ UNCHANGED <<conns, chans, chan, chanRev, nForeign, opened>>

LaunchOnConnection(c, cn) ==
  /\ phase[c] = "initialized"
  /\ LET cl == conns[cn] IN
     /\ clients[cl] = ChainIdOf[c]                               \* tmClient.ChainId == consumerChainId
     /\ AllowSharedConnection \/ ~Has(clientRev, cl)             \* NOT in the code (see header)
     /\ LET b == SetClient(c, cl) IN client' = b.fwd /\ clientRev' = b.rev
  /\ phase' = [phase EXCEPT ![c] = "launched"]
  /\ act' = Act("LaunchOnConnection", TRUE)
  /\ UNCHANGED <<clients, conns, chans, chan, chanRev, nForeign, opened>>

(* ---- the handshake callbacks --------------------------------------------- *)
AttemptKinds == {"ok", "unordered", "badport", "badcport", "badversion", "multihop"}
Attempt(kind, cn) ==
  [ order   |-> IF kind = "unordered"  THEN "UNORDERED" ELSE "ORDERED",
    port    |-> IF kind = "badport"    THEN "transfer"  ELSE "provider",
    cport   |-> IF kind = "badcport"   THEN "transfer"  ELSE "consumer",
    version |-> IF kind = "badversion" THEN "2"         ELSE "1",
    hops    |-> IF kind = "multihop"   THEN <<cn, cn>>  ELSE <<cn>> ]

\* OnChanOpenTry, check by check, in the order of the code
TryCode(a) ==
  IF a.order # "ORDERED"        THEN FALSE
  ELSE IF a.port # "provider"   THEN FALSE
  ELSE IF a.cport # "consumer"  THEN FALSE
  ELSE IF a.version # "1"       THEN FALSE
  ELSE IF Len(a.hops) # 1       THEN FALSE                       \* VerifyConsumerChain
  ELSE LET cl == conns[a.hops[1]] IN
       IF ~Has(clientRev, cl)   THEN FALSE                       \* GetClientIdToConsumerId
       ELSE LET c == clientRev[cl] IN
            IF ~Has(client, c)       THEN FALSE                  \* GetConsumerClientId
            ELSE IF client[c] # cl   THEN FALSE                  \* ErrInvalidConsumerClient
            ELSE IF Has(chan, c)     THEN FALSE                  \* ErrDuplicateChannel
            ELSE TRUE

ChanOpenTry(kind, cn) ==
  /\ Len(chans) < MaxChans
  /\ LET a == Attempt(kind, cn) ok == TryCode(a) IN
     /\ chans' = IF ok THEN Append(chans, [conn |-> cn, order |-> a.order, state |-> "TRYOPEN"]) ELSE chans
     /\ act' = [name |-> "ChanOpenTry", ok |-> ok, att |-> a]
  /\ UNCHANGED <<phase, clients, conns, client, clientRev, chan, chanRev, nForeign, opened>>

\* OnChanOpenConfirm -> SetConsumerChain
ChanOpenConfirm(ch) ==
  /\ chans[ch].state = "TRYOPEN"
  /\ LET cl == conns[chans[ch].conn]
         ok == Has(clientRev, cl) /\ ~Has(chan, clientRev[cl])
     IN /\ act' = [name |-> "ChanOpenConfirm", ok |-> ok, ch |-> ch]
        /\ IF ok THEN LET c == clientRev[cl] IN
                      /\ chan' = With(chan, c, ch) /\ chanRev' = With(chanRev, ch, c)
                      /\ chans' = [chans EXCEPT ![ch].state = "OPEN"]
                      /\ opened' = Append(opened, [ch |-> ch, c |-> c])
                 ELSE UNCHANGED <<chan, chanRev, chans, opened>>    \* transaction fails; the end stays in TRYOPEN
  /\ UNCHANGED <<phase, clients, conns, client, clientRev, nForeign>>

ChanOpenInit == act' = Act("ChanOpenInit", FALSE) /\ UNCHANGED <<real, nForeign, opened>>
ChanOpenAck  == act' = Act("ChanOpenAck", FALSE)  /\ UNCHANGED <<real, nForeign, opened>>

Stop(c) ==
  /\ phase[c] = "launched" /\ phase' = [phase EXCEPT ![c] = "stopped"]
  /\ act' = Act("Stop", TRUE)
  /\ UNCHANGED <<clients, conns, chans, client, clientRev, chan, chanRev, nForeign, opened>>

TimeoutClose(c) ==
  /\ phase[c] = "launched" /\ Has(chan, c) /\ chans[chan[c]].state = "OPEN"
  /\ chans' = [chans EXCEPT ![chan[c]].state = "CLOSED"]
  /\ phase' = [phase EXCEPT ![c] = "stopped"]
  /\ act' = Act("TimeoutClose", TRUE)
  /\ UNCHANGED <<clients, conns, client, clientRev, chan, chanRev, nForeign, opened>>

Delete(c) ==
  /\ phase[c] = "stopped" /\ phase' = [phase EXCEPT ![c] = "deleted"]
  /\ IF Has(client, c)                                          \* DeleteConsumerClientId
       THEN clientRev' = Without(clientRev, client[c]) /\ client' = Without(client, c)
       ELSE UNCHANGED <<client, clientRev>>
  /\ IF Has(chan, c)
       THEN /\ chans' = [chans EXCEPT ![chan[c]].state = "CLOSED"]
            /\ chan' = Without(chan, c) /\ chanRev' = Without(chanRev, chan[c])
       ELSE UNCHANGED <<chans, chan, chanRev>>
  /\ act' = Act("Delete", TRUE)
  /\ UNCHANGED <<clients, conns, nForeign, opened>>

Next ==
  \/ \E id \in ChainIds : CreateForeignClient(id)
  \/ \E cl \in DOMAIN clients : ConnOpen(cl)
  \/ \E c \in Consumers : LaunchNewClient(c) \/ Stop(c) \/ TimeoutClose(c) \/ Delete(c)
  \/ \E c \in Consumers, cn \in DOMAIN conns : LaunchOnConnection(c, cn)
  \/ \E k \in AttemptKinds, cn \in DOMAIN conns : ChanOpenTry(k, cn)
  \/ \E ch \in DOMAIN chans : ChanOpenConfirm(ch)
  \/ ChanOpenInit \/ ChanOpenAck

Spec == Init /\ [][Next]_vars

(* ==== properties ========================================================== *)
Injective(f) == \A a, b \in DOMAIN f : a # b => f[a] # f[b]
C17_ClientInjective ==
  /\ Injective(client)
  /\ \A c \in DOMAIN client : Has(clientRev, client[c]) /\ clientRev[client[c]] = c
  /\ \A cl \in DOMAIN clientRev : Has(client, clientRev[cl]) /\ client[clientRev[cl]] = cl
C17_ChannelInjective ==
  /\ Injective(chan)
  /\ \A c \in DOMAIN chan : Has(chanRev, chan[c]) /\ chanRev[chan[c]] = c
  /\ \A ch \in DOMAIN chanRev : Has(chan, chanRev[ch]) /\ chan[chanRev[ch]] = ch

\* the declarative acceptance condition of a Try
BoundConsumers(cl) == { c \in DOMAIN client : client[c] = cl }
TryShould(a) ==
  /\ a.order = "ORDERED" /\ a.port = "provider" /\ a.cport = "consumer" /\ a.version = "1" /\ Len(a.hops) = 1
  /\ LET cl == conns[a.hops[1]] IN
     /\ Has(clientRev, cl)
     /\ BoundConsumers(cl) = { clientRev[cl] }             \* bound to exactly one consumer, and the maps agree
     /\ ~Has(chan, clientRev[cl])
C17_TryIff == [][ act'.name = "ChanOpenTry" =>
      /\ act'.ok <=> TryShould(act'.att)
      /\ IF act'.ok THEN /\ Len(chans') = Len(chans) + 1 /\ SubSeq(chans', 1, Len(chans)) = chans
                         /\ Last(chans') = [conn |-> act'.att.hops[1], order |-> "ORDERED", state |-> "TRYOPEN"]
                    ELSE chans' = chans
      /\ UNCHANGED <<phase, clients, conns, client, clientRev, chan, chanRev>> ]_vars
C17_InitAckRejected == [][ act'.name \in {"ChanOpenInit", "ChanOpenAck"} => (~act'.ok /\ UNCHANGED real) ]_vars

\* at most one completed handshake per consumer, ever; and at most one OPEN channel on a consumer's client
C17_OneChannel ==
  /\ \A i, j \in DOMAIN opened : opened[i].c = opened[j].c => i = j
  /\ \A c \in DOMAIN client :
       Cardinality({ ch \in DOMAIN chans : chans[ch].state = "OPEN" /\ conns[chans[ch].conn] = client[c] }) <= 1
C17_OneChannelStep == [][ act'.name = "ChanOpenConfirm" =>
      IF act'.ok THEN LET cl == conns[chans[act'.ch].conn] IN
                      /\ Has(clientRev, cl) /\ ~Has(chan, clientRev[cl])
                      /\ chan' = With(chan, clientRev[cl], act'.ch) /\ chanRev' = With(chanRev, act'.ch, clientRev[cl])
                      /\ chans'[act'.ch].state = "OPEN"
                 ELSE UNCHANGED real ]_vars
\* only Confirm opens, and only bound channels are open
C17_OpenIsBound == \A ch \in DOMAIN chans : chans[ch].state = "OPEN" => Has(chanRev, ch)
\* the consumer a channel is attributed to is the one whose client underlies the channel's connection
C17_Attribution == \A ch \in DOMAIN chanRev :
      LET c == chanRev[ch] cl == conns[chans[ch].conn] IN
      /\ Has(client, c) /\ client[c] = cl
      /\ Has(clientRev, cl) /\ clientRev[cl] = c
      /\ chans[ch].order = "ORDERED"
\* bindings only exist for consumers that were launched and not yet deleted
C17_BindingPhases ==
  /\ \A c \in DOMAIN client : phase[c] \in {"launched", "stopped"}
  /\ \A c \in DOMAIN chan   : phase[c] \in {"launched", "stopped"}
  /\ \A c \in Consumers : phase[c] \in {"launched", "stopped"} => Has(client, c)
C10_Phases == [][ \A c \in Consumers : <<phase[c], phase'[c]>> \in PhaseEdges ]_vars
=============================================================================
