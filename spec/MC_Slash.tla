------------------------------ MODULE MC_Slash ------------------------------
(***************************************************************************)
(* Family model: consumer-initiated downtime slashing, the provider's      *)
(* slash meter (jail throttling) and the consumer's retry machine          *)
(* (C08, C09).  One provider, one consumer, one ordered CCV channel, one   *)
(* global clock.  One action per critical section of the code:             *)
(*                                                                         *)
(*  Setup           InitGenesis: InitializeSlashMeter (meter, candidate);  *)
(*                  the start value of the meter is an input so that       *)
(*                  negative and partially used meters are covered         *)
(*  Downtime(k)     consumer validators.go SlashWithInfractionReason ->    *)
(*                  relay.go QueueSlashPacket (downtime: only if the       *)
(*                  outstanding flag is clear; sets it; appends)           *)
(*  DoubleSign(k)   QueueSlashPacket for a double-sign infraction (no flag)*)
(*  LegacyMatured   a VSCMatured packet left in the queue by genesis       *)
(*                  import (genesis.go AppendPendingPacket; only in the    *)
(*                  first block); it is popped when sent                   *)
(*  CSend           consumer EndBlock relay.go SendPackets with            *)
(*                  throttle_retry.go PacketSendingPermitted and           *)
(*                  UpdateSlashRecordOnSend: a slash packet is sent and    *)
(*                  STAYS at the head, the loop stops                      *)
(*  ProviderRecv    provider ibc_module.go OnRecvPacket -> keeper/relay.go *)
(*                  OnRecvSlashPacket, ValidateSlashPacket,                *)
(*                  HandleSlashPacket, throttle.go GetEffectiveValPower.   *)
(*                  The code's if-cascade is transcribed; the properties   *)
(*                  compare its effect with Props!SlashOutcome evaluated   *)
(*                  on the state before the step.                          *)
(*  AckToConsumer   consumer relay.go OnAcknowledgementPacket with         *)
(*                  ClearSlashRecord + DeleteHeadOfPendingPackets /        *)
(*                  UpdateSlashRecordOnBounce / ChanCloseInit on error     *)
(*  ProviderEpoch   provider relay.go QueueVSCPackets: when there are      *)
(*                  validator updates the packet carries ConsumeSlashAcks  *)
(*  ConsumerRecvVSC consumer relay.go OnRecvVSCPacket: DeleteOutstanding-  *)
(*                  Downtime for every slash ack                           *)
(*  Tick            next block on both chains: staking EndBlock moves      *)
(*                  jailed validators out of the bonded set, then provider *)
(*                  BeginBlockCIS: CheckForSlashMeterReplenishment,        *)
(*                  ReplenishSlashMeter, GetSlashMeterAllowance (banker's  *)
(*                  rounding, minimum 1), candidate reset while full       *)
(*  Env*            other causes: provider-side jailing / tombstoning /    *)
(*                  unjailing, unbonding completes, validator enters or    *)
(*                  leaves the consumer set, consumer is stopped           *)
(*  Inject          a malicious consumer puts an arbitrary slash packet on *)
(*                  the channel (its acknowledgement is of no interest)    *)
(*                                                                         *)
(* A run is either "honest" (the consumer module above produces all        *)
(* packets) or "malicious" (only Inject produces packets); Setup picks the *)
(* mode, so the two state spaces add up instead of multiplying.            *)
(* Reductions that lose nothing for the listed properties: ProviderEpoch   *)
(* is only taken when there are slash acks to carry (QueueVSCPackets       *)
(* consumes them only when it builds a packet; a packet without acks is a  *)
(* no-op here); forged "badid"/"malformed" packets use one key because     *)
(* they are rejected before the key is read.                               *)
(*                                                                         *)
(* `act` is a ghost naming the last action; q*, done, provDone, sack*,     *)
(* jailedFC, replenished, lastRepl, sinceClear are history ghosts.  The    *)
(* VIEW leaves them out; every property over a ghost is therefore also     *)
(* stated as a step property (checked by TLC on every transition).         *)
(***************************************************************************)
EXTENDS Props

CONSTANTS Vals,            \* validators = their consumer keys (key assignment is the Keys family)
          UnknownKey,      \* a consensus key the provider cannot map to any validator
          PowerChoices,    \* set of functions Vals -> power
          MeterStarts,     \* start values for the meter (capped at the allowance)
          CsetChoices,     \* start values for the consumer's validator set on the provider
          FracNum, FracDen,\* SlashMeterReplenishFraction
          P,               \* SlashMeterReplenishPeriod in ticks
          D,               \* RetryDelayPeriod in ticks
          MaxTime, MaxDowntime, MaxDoubleSign, MaxMatured, MaxInject, MaxEnv, MaxEpochs,
          Modes,           \* subset of {"honest", "malicious"}
          DowntimeKeys,    \* validators that can be down on the consumer
          InjectDS,        \* keys for which a forged double-sign packet is tried
          AllowBadId       \* the honest consumer may report with a vsc id unknown to the provider

MC_Pow125  == { [ v \in Vals |-> IF v = "v1" THEN 1 ELSE IF v = "v2" THEN 2 ELSE 5 ] }
MC_PowMany == { [ v \in Vals |-> IF v = "v1" THEN 1 ELSE IF v = "v2" THEN 2 ELSE 5 ],
                [ v \in Vals |-> 5 ] }
MC_MeterFullOrNeg == { 0 - 1, 100 }        \* cfg files cannot hold negative numbers; values above the allowance mean "full"
MC_MeterMany      == { 0 - 3, 0, 100 }
MC_CsetAll  == { Vals }
MC_CsetSome == { Vals, Vals \ {"v1"} }

Keys == Vals \cup {UnknownKey}

VARIABLES
  stage,
  mode,       \* "honest": the consumer module runs as coded; "malicious": only forged packets reach the provider
  \* provider
  power, status, jailed, tomb, cset, phase, meter, cand, slashAcks, now, nEpoch, nEnv,
  \* consumer
  pending, outstanding, rec, cChanOpen, nDown, nDS, nMat,
  \* network
  c2p, acks, vscs, nInj,
  \* ghosts
  act, meterAtStart, jailedFC, replenished, lastRepl, qHist, done, provDone, sackHist, sackDelivered, sinceClear

provVars  == <<power, status, jailed, tomb, cset, phase, meter, cand, slashAcks, now, nEpoch, nEnv>>
consVars  == <<pending, outstanding, rec, cChanOpen, nDown, nDS, nMat>>
netVars   == <<c2p, acks, vscs, nInj>>
ghostVars == <<act, meterAtStart, jailedFC, replenished, lastRepl, qHist, done, provDone, sackHist, sackDelivered, sinceClear>>
vars == <<stage, mode, provVars, consVars, netVars, ghostVars>>
view == <<stage, mode, provVars, consVars, netVars>>

(* ---- helpers ------------------------------------------------------------ *)
NoRec == [has |-> FALSE, waiting |-> FALSE, sendTime |-> 0]

Slash(k, var, inj) == [kind |-> "slash", key |-> k, var |-> var, inj |-> inj]
Matured            == [kind |-> "matured", key |-> UnknownKey, var |-> "matured", inj |-> FALSE]
\* var: "downtime" | "doublesign" | "badid" (downtime with an unknown vsc id) | "malformed"

MaxPower == Max({ power[v] : v \in Vals })

\* staking: LastTotalPower / LastValidatorPower are written by the staking EndBlocker only; `status` changes only in Tick
TotalPowerOf(st) == SumOver({ v \in Vals : st[v] = "bonded" }, power)
\* throttle.go GetSlashMeterAllowance: Dec.MulInt(total).RoundInt64() is banker's rounding; 0 becomes 1
RoundHalfEven(n, d) ==
  LET q == n \div d  r == n % d IN
  IF 2 * r < d THEN q ELSE IF 2 * r > d THEN q + 1 ELSE IF q % 2 = 0 THEN q ELSE q + 1
AllowanceOf(st) == LET a == RoundHalfEven(FracNum * TotalPowerOf(st), FracDen) IN IF a = 0 THEN 1 ELSE a
Allowance == AllowanceOf(status)
\* throttle.go GetEffectiveValPower
EffPower(k) == IF k \notin Vals \/ jailed[k] THEN 0 ELSE IF status[k] = "bonded" THEN power[k] ELSE 0

\* throttle_retry.go PacketSendingPermitted: BlockTime.After(SendTime + RetryDelayPeriod) is strict
Permitted == ~rec.has \/ (~rec.waiting /\ now > rec.sendTime + D)

Act(name, res) == [name |-> name, res |-> res]

(* ---- initial state and set-up -------------------------------------------- *)
Init ==
  /\ stage = 0 /\ mode = "honest"
  /\ power = [ v \in Vals |-> 1 ] /\ status = [ v \in Vals |-> "bonded" ]
  /\ jailed = [ v \in Vals |-> FALSE ] /\ tomb = [ v \in Vals |-> FALSE ]
  /\ cset = Vals /\ phase = "launched" /\ meter = 0 /\ cand = 0 /\ slashAcks = << >> /\ now = 0
  /\ nEpoch = 0 /\ nEnv = 0
  /\ pending = << >> /\ outstanding = {} /\ rec = NoRec /\ cChanOpen = TRUE /\ nDown = 0 /\ nDS = 0 /\ nMat = 0
  /\ c2p = << >> /\ acks = << >> /\ vscs = << >> /\ nInj = 0
  /\ act = Act("Init", "none") /\ meterAtStart = 0 /\ jailedFC = 0 /\ replenished = 0 /\ lastRepl = 0
  /\ qHist = << >> /\ done = << >> /\ provDone = << >> /\ sackHist = << >> /\ sackDelivered = << >>
  /\ sinceClear = [ k \in Keys |-> 0 ]

Setup ==
  /\ stage = 0 /\ stage' = 1
  /\ mode' \in Modes
  /\ power' \in PowerChoices
  /\ cset' \in CsetChoices
  /\ \E m \in MeterStarts :
       LET a  == RoundHalfEven(FracNum * SumFn(power'), FracDen)
           al == IF a = 0 THEN 1 ELSE a
           m0 == Min2(m, al)
       IN meter' = m0 /\ meterAtStart' = m0
  /\ cand' = now + P                                  \* InitializeSlashMeter -> SetSlashMeterReplenishTimeCandidate
  /\ act' = Act("Setup", "none")
  /\ UNCHANGED <<status, jailed, tomb, phase, slashAcks, now, nEpoch, nEnv, consVars, netVars,
                 jailedFC, replenished, lastRepl, qHist, done, provDone, sackHist, sackDelivered, sinceClear>>

(* ---- consumer ------------------------------------------------------------ *)
Queue(pkt) == pending' = Append(pending, pkt) /\ qHist' = Append(qHist, pkt)

Downtime(k, var) ==
  /\ stage = 1 /\ mode = "honest" /\ nDown < MaxDowntime /\ nDown' = nDown + 1
  /\ k \notin outstanding                             \* QueueSlashPacket returns when the flag is set
  /\ outstanding' = outstanding \cup {k}
  /\ Queue(Slash(k, var, FALSE))
  /\ sinceClear' = [sinceClear EXCEPT ![k] = @ + 1]
  /\ act' = Act("Downtime", "none")
  /\ UNCHANGED <<stage, mode, provVars, rec, cChanOpen, nDS, nMat, netVars,
                 meterAtStart, jailedFC, replenished, lastRepl, done, provDone, sackHist, sackDelivered>>

DoubleSign(k) ==
  /\ stage = 1 /\ mode = "honest" /\ nDS < MaxDoubleSign /\ nDS' = nDS + 1
  /\ Queue(Slash(k, "doublesign", FALSE))
  /\ act' = Act("DoubleSign", "none")
  /\ UNCHANGED <<stage, mode, provVars, outstanding, rec, cChanOpen, nDown, nMat, netVars,
                 meterAtStart, jailedFC, replenished, lastRepl, done, provDone, sackHist, sackDelivered, sinceClear>>

LegacyMatured ==
  /\ stage = 1 /\ mode = "honest" /\ now = 0 /\ nMat < MaxMatured /\ nMat' = nMat + 1
  /\ Queue(Matured)
  /\ act' = Act("LegacyMatured", "none")
  /\ UNCHANGED <<stage, mode, provVars, outstanding, rec, cChanOpen, nDown, nDS, netVars,
                 meterAtStart, jailedFC, replenished, lastRepl, done, provDone, sackHist, sackDelivered, sinceClear>>

\* SendPackets: the loop sends leading VSCMatured packets (deleted afterwards) and stops after the first slash packet,
\* which stays stored.  PacketSendingPermitted can only turn false inside the loop by that slash packet.
LeadingMatured(q) ==
  LET idx == { i \in 1..Len(q) : q[i].kind # "matured" }
  IN  IF idx = {} THEN Len(q) ELSE Min(idx) - 1

CSend ==
  /\ stage = 1 /\ mode = "honest" /\ cChanOpen /\ pending # << >>
  /\ Permitted
  /\ LET n        == LeadingMatured(pending)
         hasSlash == n < Len(pending)
         sent     == SubSeq(pending, 1, IF hasSlash THEN n + 1 ELSE n)
     IN /\ c2p' = c2p \o sent
        /\ pending' = SubSeq(pending, n + 1, Len(pending))
        /\ done' = done \o SubSeq(pending, 1, n)
        /\ rec' = IF hasSlash THEN [has |-> TRUE, waiting |-> TRUE, sendTime |-> now] ELSE rec
  /\ act' = Act("CSend", "none")
  /\ UNCHANGED <<stage, mode, provVars, outstanding, cChanOpen, nDown, nDS, nMat, acks, vscs, nInj,
                 meterAtStart, jailedFC, replenished, lastRepl, qHist, provDone, sackHist, sackDelivered, sinceClear>>

\* OnAcknowledgementPacket (ordered channel: acknowledgements arrive in order)
AckToConsumer ==
  /\ stage = 1 /\ acks # << >>
  /\ LET a == Head(acks) IN
     /\ acks' = Tail(acks)
     /\ act' = Act("AckToConsumer", IF a.pkt.inj \/ a.pkt.kind = "matured" THEN "ignored" ELSE a.res)
     /\ IF a.pkt.inj \/ a.pkt.kind = "matured"
          THEN UNCHANGED <<pending, rec, cChanOpen, done>>
        ELSE IF a.res \in {"v1", "handled"}
          THEN /\ rec' = NoRec                                        \* ClearSlashRecord
               /\ pending' = IF pending = << >> THEN pending ELSE Tail(pending)   \* DeleteHeadOfPendingPackets
               /\ done' = Append(done, a.pkt)
               /\ UNCHANGED cChanOpen
        ELSE IF a.res = "bounced"
          THEN /\ rec.has                                             \* UpdateSlashRecordOnBounce panics otherwise
               /\ rec' = [rec EXCEPT !.waiting = FALSE]
               /\ UNCHANGED <<pending, cChanOpen, done>>
        ELSE /\ cChanOpen' = FALSE                                    \* error acknowledgement: ChanCloseInit
             /\ UNCHANGED <<pending, rec, done>>
  /\ UNCHANGED <<stage, mode, provVars, outstanding, nDown, nDS, nMat, c2p, vscs, nInj,
                 meterAtStart, jailedFC, replenished, lastRepl, qHist, provDone, sackHist, sackDelivered, sinceClear>>

ConsumerRecvVSC ==
  /\ stage = 1 /\ vscs # << >>
  /\ LET ks == SeqToSet(Head(vscs).acks) IN
     /\ outstanding' = outstanding \ ks
     /\ sinceClear' = [ k \in Keys |-> IF k \in ks THEN 0 ELSE sinceClear[k] ]
     /\ sackDelivered' = sackDelivered \o Head(vscs).acks
  /\ vscs' = Tail(vscs)
  /\ act' = Act("ConsumerRecvVSC", "none")
  /\ UNCHANGED <<stage, mode, provVars, pending, rec, cChanOpen, nDown, nDS, nMat, c2p, acks, nInj,
                 meterAtStart, jailedFC, replenished, lastRepl, qHist, done, provDone, sackHist>>

(* ---- provider ------------------------------------------------------------ *)
\* what the provider knows when the packet arrives (argument of Props!SlashOutcome)
RecvInput(pkt) ==
  LET k == pkt.key  isVal == k \in Vals IN
  [ wellFormed |-> pkt.var # "malformed", idKnown |-> pkt.var # "badid", doubleSign |-> pkt.var = "doublesign",
    launched |-> phase = "launched", inSet |-> k \in cset, meterNeg |-> meter < 0,
    exists |-> isVal, unbonded |-> isVal /\ status[k] = "unbonded",
    tombstoned |-> isVal /\ tomb[k], jailed |-> isVal /\ jailed[k] ]

\* The code, branch by branch.  Result: [res, meter, sack, jail]
RecvCode(pkt) ==
  LET k == pkt.key
      Ret(res, m, sack, jail) == [res |-> res, meter |-> m, sack |-> sack, jail |-> jail]
  IN
  IF pkt.var = "malformed"       THEN Ret("error",   meter, FALSE, FALSE)     \* data.Validate()
  ELSE IF pkt.var = "badid"      THEN Ret("error",   meter, FALSE, FALSE)     \* ValidateSlashPacket
  ELSE IF pkt.var = "doublesign" THEN Ret("v1",      meter, FALSE, FALSE)     \* SetSlashLog only
  ELSE IF phase # "launched"     THEN Ret("handled", meter, TRUE,  FALSE)     \* AppendSlashAck, dropped
  ELSE IF k \notin cset          THEN Ret("handled", meter, TRUE,  FALSE)     \* IsConsumerValidator
  ELSE IF meter < 0              THEN Ret("bounced", meter, FALSE, FALSE)
  ELSE LET m2 == meter - EffPower(k) IN                                        \* deducted BEFORE handling
       \* HandleSlashPacket
       IF k \notin Vals                 THEN Ret("handled", m2, FALSE, FALSE)  \* validator not found
       ELSE IF status[k] = "unbonded"   THEN Ret("handled", m2, FALSE, FALSE)
       ELSE IF tomb[k]                  THEN Ret("handled", m2, FALSE, FALSE)
       ELSE Ret("handled", m2, TRUE, ~jailed[k])                               \* AppendSlashAck; Slash+Jail iff not jailed

ProviderRecv ==
  /\ stage = 1 /\ c2p # << >>
  /\ LET pkt == Head(c2p) IN
     /\ c2p' = Tail(c2p)
     /\ IF pkt.kind = "matured"
          THEN /\ acks' = Append(acks, [pkt |-> pkt, res |-> "v1"])           \* ibc_module.go: ignored, result ack
               /\ act' = Act("ProviderRecv", "v1")
               /\ UNCHANGED <<jailed, meter, slashAcks, jailedFC, provDone, sackHist>>
          ELSE LET o == RecvCode(pkt) IN
               /\ acks' = IF pkt.inj THEN acks ELSE Append(acks, [pkt |-> pkt, res |-> o.res])
               /\ act' = Act("ProviderRecv", o.res)
               /\ meter' = o.meter
               /\ slashAcks' = IF o.sack THEN Append(slashAcks, pkt.key) ELSE slashAcks
               /\ sackHist'  = IF o.sack THEN Append(sackHist, pkt.key) ELSE sackHist
               /\ jailed' = IF o.jail THEN [jailed EXCEPT ![pkt.key] = TRUE] ELSE jailed
               /\ jailedFC' = IF o.jail THEN jailedFC + EffPower(pkt.key) ELSE jailedFC
               /\ provDone' = IF ~pkt.inj /\ o.res \in {"v1", "handled"} THEN Append(provDone, pkt) ELSE provDone
  /\ UNCHANGED <<stage, mode, power, status, tomb, cset, phase, cand, now, nEpoch, nEnv, consVars, vscs, nInj,
                 meterAtStart, replenished, lastRepl, qHist, done, sackDelivered, sinceClear>>

\* QueueVSCPackets for a launched consumer whose validator set changed: the packet takes all slash acks
ProviderEpoch ==
  /\ stage = 1 /\ nEpoch < MaxEpochs /\ nEpoch' = nEpoch + 1
  /\ phase = "launched"
  /\ slashAcks # << >>                                 \* a packet without slash acks is a no-op for this model
  /\ vscs' = Append(vscs, [acks |-> slashAcks])
  /\ slashAcks' = << >>
  /\ act' = Act("ProviderEpoch", "none")
  /\ UNCHANGED <<stage, mode, power, status, jailed, tomb, cset, phase, meter, cand, now, nEnv, consVars, c2p, acks, nInj,
                 meterAtStart, jailedFC, replenished, lastRepl, qHist, done, provDone, sackHist, sackDelivered, sinceClear>>

\* next block: staking EndBlocker of the old block, then BeginBlockCIS of the new one
Tick ==
  /\ stage = 1 /\ now < MaxTime
  /\ now' = now + 1
  /\ status' = [ v \in Vals |->
                   IF jailed[v] /\ status[v] = "bonded" THEN "unbonding"
                   ELSE IF ~jailed[v] /\ status[v] # "bonded" THEN "bonded" ELSE status[v] ]
  /\ LET alw  == AllowanceOf(status')
         due  == now' >= cand                              \* !BlockTime.Before(candidate)
         m1   == IF due THEN Min2(meter + alw, alw) ELSE meter     \* ReplenishSlashMeter
         c1   == IF due THEN now' + P ELSE cand
         full == m1 >= alw
     IN /\ meter' = IF full THEN alw ELSE m1
        /\ cand'  = IF full THEN now' + P ELSE c1
        /\ replenished' = IF due THEN replenished + alw ELSE replenished
        /\ lastRepl' = IF due THEN now' ELSE lastRepl
        /\ act' = Act("Tick", IF due THEN "replenished" ELSE "none")
  /\ UNCHANGED <<stage, mode, power, jailed, tomb, cset, phase, slashAcks, nEpoch, nEnv, consVars, netVars,
                 meterAtStart, jailedFC, qHist, done, provDone, sackHist, sackDelivered, sinceClear>>

(* ---- environment --------------------------------------------------------- *)
EnvFrame == /\ stage = 1 /\ nEnv < MaxEnv /\ nEnv' = nEnv + 1
            /\ act' = Act("Env", "none")
            /\ UNCHANGED <<stage, mode, power, meter, cand, slashAcks, now, nEpoch, consVars, netVars,
                           meterAtStart, jailedFC, replenished, lastRepl, qHist, done, provDone, sackHist, sackDelivered, sinceClear>>
EnvJail(v)   == EnvFrame /\ ~jailed[v] /\ jailed' = [jailed EXCEPT ![v] = TRUE] /\ UNCHANGED <<status, tomb, cset, phase>>
EnvTomb(v)   == EnvFrame /\ ~tomb[v] /\ tomb' = [tomb EXCEPT ![v] = TRUE] /\ jailed' = [jailed EXCEPT ![v] = TRUE]
                         /\ UNCHANGED <<status, cset, phase>>
EnvUnjail(v) == EnvFrame /\ jailed[v] /\ ~tomb[v] /\ jailed' = [jailed EXCEPT ![v] = FALSE] /\ UNCHANGED <<status, tomb, cset, phase>>
EnvMature(v) == EnvFrame /\ status[v] = "unbonding" /\ status' = [status EXCEPT ![v] = "unbonded"] /\ UNCHANGED <<jailed, tomb, cset, phase>>
EnvSet(v)    == EnvFrame /\ cset' = (IF v \in cset THEN cset \ {v} ELSE cset \cup {v}) /\ UNCHANGED <<status, jailed, tomb, phase>>
EnvStop      == EnvFrame /\ phase = "launched" /\ phase' = "stopped" /\ UNCHANGED <<status, jailed, tomb, cset>>

Inject(k, var) ==
  /\ stage = 1 /\ mode = "malicious" /\ nInj < MaxInject /\ nInj' = nInj + 1
  /\ c2p' = Append(c2p, Slash(k, var, TRUE))
  /\ act' = Act("Inject", "none")
  /\ UNCHANGED <<stage, mode, provVars, consVars, acks, vscs,
                 meterAtStart, jailedFC, replenished, lastRepl, qHist, done, provDone, sackHist, sackDelivered, sinceClear>>

Next ==
  \/ Setup
  \/ \E k \in DowntimeKeys : Downtime(k, "downtime") \/ (AllowBadId /\ Downtime(k, "badid")) \/ DoubleSign(k)
  \/ LegacyMatured \/ CSend \/ AckToConsumer \/ ConsumerRecvVSC
  \/ ProviderRecv \/ ProviderEpoch \/ Tick
  \/ \E v \in Vals : EnvJail(v) \/ EnvTomb(v) \/ EnvUnjail(v) \/ EnvMature(v) \/ EnvSet(v)
  \/ EnvStop
  \/ \E k \in Keys : Inject(k, "downtime")
  \/ \E v \in InjectDS : Inject(v, "doublesign")
  \/ Inject(UnknownKey, "badid") \/ Inject(UnknownKey, "malformed")   \* rejected before the key is looked at

Spec == Init /\ [][Next]_vars

(* ==== properties ========================================================== *)
IsRecv      == act'.name = "ProviderRecv"
IsSlashRecv == IsRecv /\ Head(c2p).kind = "slash"
Pkt         == Head(c2p)
Out         == SlashOutcome(RecvInput(Pkt))      \* evaluated on the state BEFORE the step

\* C08: a slash packet changes the jailing state of the resolved target only, and never tombstones / unbonds anybody
C08_OnlyTarget == [][ IsRecv =>
      /\ \A v \in Vals : (Pkt.kind = "matured" \/ v # Pkt.key) => jailed'[v] = jailed[v]
      /\ tomb' = tomb /\ status' = status /\ power' = power /\ cset' = cset ]_vars
\* the target becomes jailed in this step iff the declarative outcome says `punish`; the acknowledgement is the declared one
C08_Iff == [][ IsSlashRecv =>
      /\ (\E v \in Vals : jailed'[v] /\ ~jailed[v]) <=> Out.punish
      /\ Out.punish => jailed'[Pkt.key]
      /\ \A v \in Vals : jailed[v] => jailed'[v]
      /\ act'.res = Out.ack
      /\ ~Pkt.inj => Last(acks') = [pkt |-> Pkt, res |-> Out.ack] ]_vars
C08_DoubleSignNoPunish == [][ (IsSlashRecv /\ Pkt.var = "doublesign") =>
      /\ UNCHANGED <<jailed, tomb, status, meter, slashAcks>>
      /\ act'.res = "v1" ]_vars
C08_AckQueued == [][ IsSlashRecv =>
      slashAcks' = IF Out.sack THEN Append(slashAcks, Pkt.key) ELSE slashAcks ]_vars
\* and nothing else touches the slash acks except the epoch, which moves ALL of them into the next VSC packet
C08_AckCarriedStep == [][
      /\ act'.name = "ProviderEpoch" => (Last(vscs').acks = slashAcks /\ slashAcks' = << >> /\ Len(vscs') = Len(vscs) + 1)
      /\ act'.name \notin {"ProviderEpoch", "ProviderRecv"} => slashAcks' = slashAcks
      /\ act'.name \notin {"ProviderEpoch", "ConsumerRecvVSC"} => vscs' = vscs ]_vars
Flatten(q) == LET F[i \in 0..Len(q)] == IF i = 0 THEN << >> ELSE F[i-1] \o q[i].acks IN F[Len(q)]
C08_AckCarried == sackHist = sackDelivered \o Flatten(vscs) \o slashAcks

\* consumer: between two clearings of a key's flag at most one downtime report is queued, and at most one report per key
\* is unresolved (queued or in flight without a final answer of the provider).
DowntimeFor(k, p) == p.kind = "slash" /\ p.key = k /\ p.var \in {"downtime", "badid"}
Resolved(k) == Cardinality({ i \in DOMAIN acks : ~acks[i].pkt.inj /\ DowntimeFor(k, acks[i].pkt) /\ acks[i].res \in {"v1", "handled"} })
Unresolved(k) == Cardinality({ i \in DOMAIN pending : DowntimeFor(k, pending[i]) }) - Resolved(k)
C08_Outstanding == (mode = "honest") => \A k \in Vals :
      /\ sinceClear[k] <= 1 /\ (sinceClear[k] = 1 <=> k \in outstanding)
      /\ Unresolved(k) <= 1 /\ (Unresolved(k) = 1 => k \in outstanding)
C08_OutstandingStep == [][ act'.name = "Downtime" => \E k \in Vals : k \notin outstanding /\ outstanding' = outstanding \cup {k} ]_vars

\* C09: admission by the meter
ProvState == <<power, status, jailed, tomb, cset, phase, meter, cand, slashAcks>>
C09_Admit == [][ (IsSlashRecv /\ Pkt.var = "downtime" /\ phase = "launched" /\ Pkt.key \in cset) =>
      IF meter < 0 THEN act'.res = "bounced" /\ UNCHANGED ProvState
      ELSE act'.res = "handled" /\ meter' = meter - EffPower(Pkt.key) ]_vars
C09_MeterOnlyByAdmission == [][ IsRecv =>
      (meter' # meter => (Pkt.kind = "slash" /\ Out.deduct /\ meter >= 0)) ]_vars
C09_MeterLeAllowance     == (stage = 1) => meter <= Allowance
C09_MeterLeAllowanceStep == [][ act'.name = "Tick" => meter' <= AllowanceOf(status') ]_vars
C09_MeterFloor           == (stage = 1) => meter >= Min2(meterAtStart, 0 - MaxPower)
C09_OncePerPeriod == [][ act'.name = "Tick" =>
      /\ meter' - meter <= AllowanceOf(status')
      /\ replenished' - replenished <= AllowanceOf(status')
      /\ (act'.res = "replenished") => (now' - lastRepl >= P /\ cand' = now' + P)
      /\ (act'.res # "replenished") => (meter' <= meter /\ replenished' = replenished)
      /\ cand' <= now' + P /\ cand' > now' ]_vars
C09_CandidateAfterLast == (stage = 1) => (cand >= lastRepl + P /\ cand > now)
C09_Window == jailedFC <= Max2(meterAtStart, 0) + replenished + MaxPower
\* the two step facts C09_Window follows from (with C09_MeterFloor)
C09_WindowStep == [][
      /\ IsRecv => (jailedFC' - jailedFC <= meter - meter' /\ replenished' = replenished)
      /\ act'.name = "Tick" => (meter' - meter <= replenished' - replenished /\ jailedFC' = jailedFC)
      /\ act'.name \notin {"ProviderRecv", "Tick", "Setup"} => UNCHANGED <<meter, jailedFC, replenished>> ]_vars
C09_Budget == (stage = 1) => jailedFC + meter <= meterAtStart + replenished

\* consumer retry machine
Standby == rec.has /\ (rec.waiting \/ now <= rec.sendTime + D)
C09_Standby == [][ (Standby /\ act'.name \notin {"Inject"}) => c2p' \in {c2p, IF c2p = << >> THEN c2p ELSE Tail(c2p)} ]_vars
C09_SendSetsRecord == [][ (act'.name = "CSend" /\ \E i \in DOMAIN c2p' : i > Len(c2p) /\ c2p'[i].kind = "slash") =>
      (rec'.has /\ rec'.waiting /\ rec'.sendTime = now /\ Last(c2p').kind = "slash" /\ Head(pending') = Last(c2p')) ]_vars
IsPrefix(s, t) == Len(s) <= Len(t) /\ SubSeq(t, 1, Len(s)) = s
C09_HeadStays == [][ (pending # << >> /\ Head(pending).kind = "slash") =>
      \/ IsPrefix(pending, pending')
      \/ /\ act'.name = "AckToConsumer" /\ act'.res \in {"v1", "handled"}
         /\ Head(acks).pkt = Head(pending) /\ pending' = Tail(pending) /\ ~rec'.has ]_vars
\* exactly once: everything queued is either still queued (in order) or was popped; the provider finally answered exactly
\* the popped slash packets plus possibly the head whose answer is on its way
Slashes(q) == SelectSeq(q, LAMBDA p : p.kind = "slash")
AnswerInFlight == LET s == SelectSeq(acks, LAMBDA a : ~a.pkt.inj /\ a.pkt.kind = "slash" /\ a.res \in {"v1", "handled"})
                  IN  [ i \in DOMAIN s |-> s[i].pkt ]
C09_ExactlyOnce ==
  /\ qHist = done \o pending
  /\ provDone = Slashes(done) \o AnswerInFlight
  /\ Len(AnswerInFlight) <= 1
C09_ExactlyOnceStep == [][
      \/ UNCHANGED <<pending, qHist, done>>
      \/ \E p \in {Matured} \cup { Slash(k, var, FALSE) : k \in Vals, var \in {"downtime", "doublesign", "badid"} } :
           pending' = Append(pending, p) /\ qHist' = Append(qHist, p) /\ done' = done
      \/ \E n \in 1..Len(pending) :
           pending' = SubSeq(pending, n + 1, Len(pending)) /\ done' = done \o SubSeq(pending, 1, n) /\ qHist' = qHist ]_vars
\* a bounced packet is re-sent, not dropped: while the head is a slash packet that was bounced, it is still the head
C09_NoBouncePanic == (acks # << >> /\ ~Head(acks).pkt.inj /\ Head(acks).pkt.kind = "slash" /\ Head(acks).res = "bounced") => rec.has
C09_BouncedKept == [][ (act'.name = "AckToConsumer" /\ act'.res = "bounced") =>
      (pending' = pending /\ rec'.has /\ ~rec'.waiting /\ rec'.sendTime = rec.sendTime) ]_vars
=============================================================================
