----------------------------- MODULE MC_Evidence -----------------------------
(***************************************************************************)
(* Family model: the decision the provider takes on double-voting evidence *)
(* (C07).  The code's sequence of checks (MsgSubmitConsumerDoubleVoting    *)
(* .ValidateBasic, msgServer.SubmitConsumerDoubleVoting, HandleConsumer-   *)
(* DoubleVoting, VerifyDoubleVotingEvidence, SlashValidator,               *)
(* JailAndTombstoneValidator) is transcribed as an ordered chain over an   *)
(* abstract evidence record and compared, for EVERY record of the mutation *)
(* lattice x consumer state x key kind x validator state, with the         *)
(* declarative statement "accepted iff cryptographically valid for that    *)
(* consumer and the resolved signer is punishable; then exactly the signer *)
(* is punished".  Cryptography is abstracted to booleans, which the        *)
(* conformance harness realises with real ed25519 votes.                   *)
(***************************************************************************)
EXTENDS Props

VARIABLES
  stage,        \* 0 = evidence and world chosen, 1 = handled
  ev,           \* [chainOk, sameH, sameR, sameT, sameAddr, blockDiff, sigA, sigB, old, hdrKeyMatches]
  consState,    \* "launched" | "stopped" | "registered" | "deleted" | "unknown"
  keyKind,      \* "current" | "replaced" | "pruned" | "providerOfMember" | "providerOfNonMember" | "unknown"
  valState,     \* state of the validator the key resolves to: "bonded" | "unbonding" | "unbonded" | "jailed" | "tombstoned"
  tombParam,    \* the consumer's double-sign tombstone flag
  accepted, punished, tombAfter
vars == <<stage, ev, consState, keyKind, valState, tombParam, accepted, punished, tombAfter>>

Flags == [ chainOk : BOOLEAN, sameH : BOOLEAN, sameR : BOOLEAN, sameT : BOOLEAN, sameAddr : BOOLEAN,
           blockDiff : BOOLEAN, sigA : BOOLEAN, sigB : BOOLEAN, old : BOOLEAN, hdrKeyMatches : BOOLEAN ]
ValidFlags == [ chainOk |-> TRUE, sameH |-> TRUE, sameR |-> TRUE, sameT |-> TRUE, sameAddr |-> TRUE, blockDiff |-> TRUE,
                sigA |-> TRUE, sigB |-> TRUE, old |-> FALSE, hdrKeyMatches |-> TRUE ]
\* records that differ from the valid one in at most MaxMut fields
CONSTANT MaxMut
Dist(f) == Cardinality({ k \in DOMAIN f : f[k] # ValidFlags[k] })

Init ==
  /\ stage = 0
  /\ ev \in { f \in Flags : Dist(f) <= MaxMut }
  /\ consState \in { "launched", "stopped", "registered", "deleted", "unknown" }
  /\ keyKind \in { "current", "replaced", "pruned", "providerOfMember", "providerOfNonMember", "unknown" }
  /\ valState \in { "bonded", "unbonding", "unbonded", "jailed", "tombstoned" }
  /\ tombParam \in BOOLEAN
  /\ accepted = FALSE /\ punished = FALSE /\ tombAfter = FALSE

\* does the key resolve to some provider validator (GetProviderAddrFromConsumerAddr, then GetValidatorByConsAddr)?
Resolves == keyKind \in { "current", "replaced", "providerOfMember", "providerOfNonMember" }
HasClient == consState \in { "launched", "stopped" }

\* the code's chain of checks, in order; the first failing check rejects
CodeAccepts ==
  /\ ev.blockDiff                    \* ValidateBasic: DuplicateVoteEvidence ordering rejects equal block ids
  /\ ev.hdrKeyMatches                \* the header's validator set yields a key for the signer's address ...
  /\ HasClient                       \* GetConsumerClientId
  /\ ~ev.old                         \* minimum evidence height
  /\ ev.sameH /\ ev.sameR /\ ev.sameT
  /\ ev.sameAddr
  /\ ev.chainOk /\ ev.sigA /\ ev.sigB    \* signatures are verified over the consumer's chain id
  /\ Resolves                        \* SlashValidator: validator found ...
  /\ valState # "unbonded"           \* ... not unbonded ...
  /\ valState # "tombstoned"         \* ... not tombstoned

Handle ==
  /\ stage = 0 /\ stage' = 1
  /\ accepted' = CodeAccepts
  /\ punished' = CodeAccepts
  /\ tombAfter' = (valState = "tombstoned" \/ (CodeAccepts /\ tombParam))
  /\ UNCHANGED <<ev, consState, keyKind, valState, tombParam>>

Next == Handle
Spec == Init /\ [][Next]_vars

(* ---- the statement ---- *)
DeclValid == ev = ValidFlags /\ HasClient
Punishable == Resolves /\ valState \notin { "unbonded", "tombstoned" }
C07_Verdict == (stage = 1) => (accepted <=> (DeclValid /\ Punishable))
C07_OnlyWhenValid == (stage = 1) => (punished => DeclValid)
C07_Once == (stage = 1) => ((valState = "tombstoned") => ~punished)
C07_TombstoneSticky == (stage = 1) => ((valState = "tombstoned") => tombAfter)
=============================================================================
