------------------------------- MODULE MC_Keys -------------------------------
(***************************************************************************)
(* Family model: consumer key assignment on the provider (C05, C06).       *)
(* One action per critical section of the code; the store of the provider  *)
(* module is modelled by three maps per consumer:                          *)
(*   valKey[c]  : validator |-> key     ConsumerValidators   (GetValidatorConsumerPubKey)        *)
(*   keyVal[c]  : key |-> validator     ValidatorsByConsumerAddr (GetValidatorByConsumerAddr)    *)
(*   toPrune[c] : set of [k, t]         ConsumerAddrsToPruneV2 (one list per prune timestamp)    *)
(* and `prov` (validator |-> provider consensus key) stands for the        *)
(* staking module's ValidatorByConsAddr index; DOMAIN prov = the validators *)
(* that currently exist.                                                   *)
(*                                                                         *)
(*   Assign(v,c,k)        msg_server.go AssignConsumerKey (validator must exist) and             *)
(*                        key_assignment.go AssignConsumerKey, guard by guard, in code order;    *)
(*                        also reached by partial_set_security.go HandleOptIn with a key.        *)
(*                        A failing message changes nothing (all guards precede the writes and   *)
(*                        the SDK discards the cached store), modelled as a step that only sets  *)
(*                        the label.                                                             *)
(*   Launch(c)            consumer_lifecycle.go LaunchConsumer (phase -> launched, client bound) *)
(*   Stop(c)              StopAndPrepareForConsumerRemoval (phase -> stopped, client kept)       *)
(*   DeleteConsumer(c)    DeleteConsumerChain -> DeleteKeyAssignments (only from stopped)        *)
(*   Tick                 end of the block with time `now`: relay.go EndBlockCIS calls           *)
(*                        PruneKeyAssignments for every consumer WITH A CLIENT (launched and     *)
(*                        stopped); ConsumeConsumerAddrsToPrune takes every timestamp ts <= now  *)
(*                        (inclusive end bytes); then the next block has time now+1.             *)
(*                        Messages of a block therefore still see entries with pruneTs = now.    *)
(*   CreateValidator(x,k) staking CreateValidator (consensus key of an existing validator is     *)
(*                        refused) + hooks.go AfterValidatorCreated -> ValidatorConsensusKeyInUse*)
(*                        (panics = tx aborted iff k is in keyVal of an ACTIVE consumer)         *)
(*   RemoveValidator(v)   hooks.go AfterValidatorRemoved: for every consumer delete v's current  *)
(*                        assignment and its reverse entry (entries scheduled for pruning stay)  *)
(*                                                                                               *)
(* `replaced` is a ghost: [c,k,v,until] is recorded whenever an assignment on a LAUNCHED         *)
(* consumer replaces key k of validator v (until = now + U).  `lbl` names the last step and is   *)
(* excluded from the VIEW (it never influences a guard).                                         *)
(***************************************************************************)
EXTENDS Props

CONSTANTS Vals0,       \* validators existing in the initial state
          Creatable,   \* validators that can be created whenever they do not exist (may overlap Vals0: re-creation)
          ProvKey0,    \* Vals0 -> Keys, the initial provider keys (injective)
          Keys,        \* key universe: provider keys plus extra keys
          Consumers, U, MaxTime

MC_ProvKey3 == ("v1" :> "p1") @@ ("v2" :> "p2") @@ ("v3" :> "p3")
MC_ProvKey2 == ("v1" :> "p1") @@ ("v2" :> "p2")

VARIABLES prov, phase, valKey, keyVal, toPrune, now, replaced, lbl
core == <<prov, phase, valKey, keyVal, toPrune, now>>
vars == <<prov, phase, valKey, keyVal, toPrune, now, replaced, lbl>>
view == <<prov, phase, valKey, keyVal, toPrune, now, replaced>>

AllVals   == Vals0 \cup Creatable
Active(c) == phase[c] \in {"registered", "initialized", "launched"}
HasClient(c) == phase[c] \in {"launched", "stopped"}
Drop(f, S) == Restrict(f, DOMAIN f \ S)
Lbl(a, v, c, k, ok) == [a |-> a, v |-> v, c |-> c, k |-> k, ok |-> ok]

Init ==
  /\ prov = ProvKey0
  /\ phase = [c \in Consumers |-> "registered"]
  /\ valKey = [c \in Consumers |-> << >>]
  /\ keyVal = [c \in Consumers |-> << >>]
  /\ toPrune = [c \in Consumers |-> {}]
  /\ now = 0 /\ replaced = {} /\ lbl = Lbl("Init", "-", "-", "-", TRUE)

(* ---- AssignConsumerKey, transcribed ---------------------------------------- *)
AssignRes(v, c, k) ==
  LET vk == valKey[c]  kv == keyVal[c]  tp == toPrune[c]
      user == { w \in DOMAIN prov : prov[w] = k }      \* stakingKeeper.GetValidatorByConsAddr(consumerAddr)
      rej  == [ok |-> FALSE, vk |-> vk, kv |-> kv, tp |-> tp, old |-> "-"]
  IN
  IF v \notin DOMAIN prov THEN rej                                   \* msg server: validator must exist
  ELSE IF ~Active(c) THEN rej                                        \* ErrInvalidPhase
  ELSE IF user # {} /\ user # {v} THEN rej                           \* a different validator already uses the key
  ELSE IF user = {v} /\ v \notin DOMAIN vk THEN rej                  \* ErrCannotAssignDefaultKeyAssignment
  ELSE IF k \in DOMAIN kv THEN rej                                   \* key in use or to be pruned
  ELSE IF v \in DOMAIN vk
         THEN IF phase[c] = "launched"
                THEN [ok |-> TRUE, vk |-> (v :> k) @@ vk, kv |-> (k :> v) @@ kv,
                      tp |-> tp \cup { [k |-> vk[v], t |-> now + U] }, old |-> vk[v]]   \* AppendConsumerAddrsToPrune
                ELSE [ok |-> TRUE, vk |-> (v :> k) @@ vk, kv |-> (k :> v) @@ Drop(kv, {vk[v]}),
                      tp |-> tp, old |-> "-"]                                            \* DeleteValidatorByConsumerAddr
         ELSE [ok |-> TRUE, vk |-> (v :> k) @@ vk, kv |-> (k :> v) @@ kv, tp |-> tp, old |-> "-"]

Assign(v, c, k) ==
  LET r == AssignRes(v, c, k) IN
  /\ valKey'  = [valKey  EXCEPT ![c] = r.vk]
  /\ keyVal'  = [keyVal  EXCEPT ![c] = r.kv]
  /\ toPrune' = [toPrune EXCEPT ![c] = r.tp]
  /\ replaced' =
       IF ~r.ok THEN replaced
       ELSE LET kept == { e \in replaced : ~(e.c = c /\ e.k = k /\ e.until < now) }   \* k is assigned again: expired entry done
            IN  IF r.old # "-" THEN kept \cup { [c |-> c, k |-> r.old, v |-> v, until |-> now + U] } ELSE kept
  /\ lbl' = Lbl("Assign", v, c, k, r.ok)
  /\ UNCHANGED <<prov, phase, now>>

Launch(c) ==
  /\ phase[c] = "registered"
  /\ phase' = [phase EXCEPT ![c] = "launched"]
  /\ lbl' = Lbl("Launch", "-", c, "-", TRUE)
  /\ UNCHANGED <<prov, valKey, keyVal, toPrune, now, replaced>>

Stop(c) ==
  /\ phase[c] = "launched"
  /\ phase' = [phase EXCEPT ![c] = "stopped"]
  /\ lbl' = Lbl("Stop", "-", c, "-", TRUE)
  /\ UNCHANGED <<prov, valKey, keyVal, toPrune, now, replaced>>

DeleteConsumer(c) ==
  /\ phase[c] = "stopped"
  /\ phase' = [phase EXCEPT ![c] = "deleted"]
  /\ valKey'  = [valKey  EXCEPT ![c] = << >>]
  /\ keyVal'  = [keyVal  EXCEPT ![c] = << >>]
  /\ toPrune' = [toPrune EXCEPT ![c] = {}]
  /\ replaced' = { e \in replaced : e.c # c }
  /\ lbl' = Lbl("DeleteConsumer", "-", c, "-", TRUE)
  /\ UNCHANGED <<prov, now>>

\* EndBlockCIS of the block with time `now`, then the next block starts
Tick ==
  /\ now < MaxTime
  /\ LET due(c) == IF HasClient(c) THEN { e \in toPrune[c] : e.t <= now } ELSE {} IN
     /\ keyVal'  = [c \in Consumers |-> Drop(keyVal[c], { e.k : e \in due(c) })]
     /\ toPrune' = [c \in Consumers |-> toPrune[c] \ due(c)]
  /\ now' = now + 1
  /\ replaced' = { e \in replaced : e.until >= now }      \* entries with until < now were checked by C06_Free in this state
  /\ lbl' = Lbl("Tick", "-", "-", "-", TRUE)
  /\ UNCHANGED <<prov, phase, valKey>>

CreateOK(x, k) ==
  /\ \A w \in DOMAIN prov : prov[w] # k                                    \* staking: consensus key already registered
  /\ \A c \in Consumers : Active(c) => k \notin DOMAIN keyVal[c]           \* ValidatorConsensusKeyInUse
CreateValidator(x, k) ==
  /\ x \in Creatable /\ x \notin DOMAIN prov
  /\ prov' = IF CreateOK(x, k) THEN (x :> k) @@ prov ELSE prov
  /\ lbl' = Lbl("CreateValidator", x, "-", k, CreateOK(x, k))
  /\ UNCHANGED <<phase, valKey, keyVal, toPrune, now, replaced>>

RemoveValidator(v) ==
  /\ v \in DOMAIN prov
  /\ prov' = Drop(prov, {v})
  /\ valKey' = [c \in Consumers |-> Drop(valKey[c], {v})]
  /\ keyVal' = [c \in Consumers |-> IF v \in DOMAIN valKey[c] THEN Drop(keyVal[c], {valKey[c][v]}) ELSE keyVal[c]]
  /\ lbl' = Lbl("RemoveValidator", v, "-", "-", TRUE)
  /\ UNCHANGED <<phase, toPrune, now, replaced>>

Next ==
  \/ \E v \in AllVals, c \in Consumers, k \in Keys : Assign(v, c, k)
  \/ \E c \in Consumers : Launch(c) \/ Stop(c) \/ DeleteConsumer(c)
  \/ Tick
  \/ \E x \in Creatable, k \in Keys : CreateValidator(x, k)
  \/ \E v \in AllVals : RemoveValidator(v)

Spec == Init /\ [][Next]_vars

(* ---- properties -------------------------------------------------------------- *)
TypeOK ==
  /\ DOMAIN prov \subseteq AllVals /\ \A v \in DOMAIN prov : prov[v] \in Keys
  /\ \A c \in Consumers :
       /\ DOMAIN valKey[c] \subseteq AllVals /\ DOMAIN keyVal[c] \subseteq Keys
       /\ \A e \in toPrune[c] : e.k \in Keys /\ e.t \in 0..(MaxTime + U)
  /\ now \in 0..MaxTime

\* who is associated with key k on consumer c
Holders(c, k) ==
  { v \in DOMAIN valKey[c] : valKey[c][v] = k }
    \cup (IF k \in DOMAIN keyVal[c] THEN { keyVal[c][k] } ELSE {})
    \cup { v \in DOMAIN prov : prov[v] = k }
C05_Injective == \A c \in Consumers : Active(c) => \A k \in Keys : Cardinality(Holders(c, k)) <= 1

\* the statement's rejection conditions, evaluated before the step
AssignMustReject(v, c, k) ==
  \/ ~Active(c)
  \/ \E w \in DOMAIN prov \ {v} : prov[w] = k                     \* another validator's provider key
  \/ \E w \in DOMAIN valKey[c] : valKey[c][w] = k                 \* any validator's current key on c
  \/ \E e \in toPrune[c] : e.k = k                                \* any validator's recently replaced key on c
CreateMustReject(k) ==
  \/ \E w \in DOMAIN prov : prov[w] = k
  \/ \E c \in Consumers : Active(c) /\ k \in DOMAIN keyVal[c]
C05_RejectedUnchanged ==
  [][ /\ (~lbl'.ok => UNCHANGED core)
      /\ (lbl'.a = "Assign" /\ AssignMustReject(lbl'.v, lbl'.c, lbl'.k) => ~lbl'.ok)
      /\ (lbl'.a = "Assign" /\ lbl'.ok => /\ valKey'[lbl'.c][lbl'.v] = lbl'.k
                                           /\ keyVal'[lbl'.c][lbl'.k] = lbl'.v
                                           /\ \A w \in DOMAIN valKey[lbl'.c] \ {lbl'.v} : valKey'[lbl'.c][w] = valKey[lbl'.c][w])
      /\ (lbl'.a = "CreateValidator" => (lbl'.ok <=> ~CreateMustReject(lbl'.k)))
    ]_vars

\* GetProviderAddrFromConsumerAddr: the reverse index first, else the key is taken as a provider key
Resolve(c, k) ==
  IF k \in DOMAIN keyVal[c] THEN keyVal[c][k]
  ELSE IF \E v \in DOMAIN prov : prov[v] = k THEN CHOOSE v \in DOMAIN prov : prov[v] = k
  ELSE "-"
\* `now <= until`: pruning happens in the EndBlock of the first block with time >= until, so the messages of
\* that block (slash packets, evidence) still resolve the old key; this implies the `now < until` reading.
C06_Attributable ==
  \A e \in replaced : (now <= e.until /\ HasClient(e.c) /\ e.v \in DOMAIN prov) => Resolve(e.c, e.k) = e.v
\* after the EndBlock of the block with time `until` the key is forgotten (ghost entries of re-assigned keys are dropped)
C06_Free ==
  \A e \in replaced : (e.until < now /\ HasClient(e.c)) => e.k \notin DOMAIN keyVal[e.c]
C06_PruneListed == \A c \in Consumers : \A e \in toPrune[c] : e.k \in DOMAIN keyVal[c]

\* supporting invariants (the comment above AppendConsumerAddrsToPrune, and index consistency)
KeyIndexConsistent == \A c \in Consumers : \A v \in DOMAIN valKey[c] :
                         valKey[c][v] \in DOMAIN keyVal[c] /\ keyVal[c][valKey[c][v]] = v
KeyIndexNoOrphan == \A c \in Consumers : \A k \in DOMAIN keyVal[c] :
                         (\E v \in DOMAIN valKey[c] : valKey[c][v] = k) \/ (\E e \in toPrune[c] : e.k = k)
ProvInjective == \A a, b \in DOMAIN prov : prov[a] = prov[b] => a = b
PruneOnlyWithClient == \A c \in Consumers : toPrune[c] # {} => HasClient(c)
=============================================================================
