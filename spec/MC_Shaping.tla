----------------------------- MODULE MC_Shaping -----------------------------
(***************************************************************************)
(* Family model: how the provider shapes a consumer validator set and its  *)
(* own consensus set (C02, C03, C04, C15).  The algorithm of the code is   *)
(* transcribed (candidate selection, Top-N threshold loop, auto opt-in,    *)
(* filter, priority partition, validator-set cap, power-cap distribution)  *)
(* and TLC checks the declarative postconditions of Props.tla for EVERY    *)
(* input of a small domain: all token vectors (with equal powers at        *)
(* different token amounts), all active-set sizes, opt-in sets, lists,     *)
(* caps and percentages.                                                   *)
(*                                                                         *)
(* The enumeration is staged so that TLC's workers share it and every      *)
(* intermediate result is computed once:                                   *)
(*   stage 0  staking side chosen (tokens, M)                              *)
(*   stage 1  consumer parameters chosen                                   *)
(*   stage 2  active set and Top-N threshold computed  (code: ProviderValidatorUpdates, ComputeMinPowerInTopN) *)
(*   stage 3  auto opt-in and membership computed      (code: OptInTopNValidators, ComputeNextValidators)      *)
(*   stage 4  powers computed                          (code: CapValidatorsPower)                               *)
(***************************************************************************)
EXTENDS Props, SequencesExt

CONSTANTS ValSeq,      \* validator names as a sequence: the position stands for the operator-address order
          TokenChoices,\* token amounts; power = tokens \div PowerReduction
          PowerReduction,
          MChoices, TopNChoices, ValCapChoices, PowCapChoices, MinStakeChoices,
          AllowChoices, DenyChoices, PrioChoices,  \* sets of subsets of Vals usable as allow / deny / priority list
          OptInChoices, InactiveChoices

MC_ValSeq3 == <<"v1", "v2", "v3">>
MC_ValSeq4 == <<"v1", "v2", "v3", "v4">>
MC_Lists   == { {}, {"v1"}, {"v2", "v3"} }
MC_NoList  == { {} }
MC_AllOptIn == SUBSET SeqToSet(ValSeq)
MC_FullOptIn == { SeqToSet(ValSeq) }
Vals == SeqToSet(ValSeq)
Rank(v) == CHOOSE i \in DOMAIN ValSeq : ValSeq[i] = v

VARIABLES stage, tok, M, optIn, topN, valCap, powCap, minStake, allowInactive, allowL, denyL, prioL,
          active, minPow, opted, members, outPow
inputs  == <<tok, M, optIn, topN, valCap, powCap, minStake, allowInactive, allowL, denyL, prioL>>
vars    == <<stage, inputs, active, minPow, opted, members, outPow>>

Pow(v) == tok[v] \div PowerReduction
LPow   == [ v \in Vals |-> Pow(v) ]
Bonded == { v \in Vals : Pow(v) > 0 }
\* the staking power index: descending power, ties by ascending operator address
IdxBefore(a, b) == Pow(a) > Pow(b) \/ (Pow(a) = Pow(b) /\ Rank(a) < Rank(b))
TokBefore(a, b) == tok[a] > tok[b] \/ (tok[a] = tok[b] /\ Rank(a) < Rank(b))

Init ==
  /\ stage = 0
  /\ tok \in [Vals -> TokenChoices]
  /\ M \in MChoices
  /\ optIn = {} /\ topN = 0 /\ valCap = 0 /\ powCap = 0 /\ minStake = 0 /\ allowInactive = TRUE
  /\ allowL = {} /\ denyL = {} /\ prioL = {}
  /\ active = {} /\ minPow = 0 /\ opted = {} /\ members = {} /\ outPow = << >>

ChooseParams ==
  /\ stage = 0 /\ stage' = 1
  /\ UNCHANGED <<tok, M, active, minPow, opted, members, outPow>>
  /\ optIn' \in OptInChoices
  /\ topN' \in TopNChoices
  /\ valCap' \in ValCapChoices
  /\ powCap' \in PowCapChoices
  /\ minStake' \in MinStakeChoices
  /\ allowInactive' \in InactiveChoices
  /\ allowL' \in AllowChoices /\ denyL' \in DenyChoices /\ prioL' \in PrioChoices

\* ProviderValidatorUpdates: first M of the power index; ComputeMinPowerInTopN: running sum over descending powers
ComputeActive ==
  /\ stage = 1 /\ stage' = 2
  /\ LET idx == SetToSortSeq(Bonded, IdxBefore)
         act == { idx[i] : i \in 1..Min2(M, Len(idx)) }
         ps  == SetToSortSeq(act, IdxBefore)
         tot == SumOver(act, LPow)
         Run[i \in 0..Len(ps)] == IF i = 0 THEN 0 ELSE Run[i-1] + Pow(ps[i])
         hit == { i \in 1..Len(ps) : 100 * Run[i] >= topN * tot }
     IN /\ active' = act
        /\ minPow' = IF topN > 0 /\ act # {} THEN Pow(ps[CHOOSE i \in hit : \A j \in hit : i <= j]) ELSE 0
  /\ UNCHANGED <<inputs, opted, members, outPow>>

\* OptInTopNValidators, then ComputeNextValidators on the candidates
ComputeMembers ==
  /\ stage = 2 /\ stage' = 3
  /\ LET op     == IF topN > 0 THEN optIn \cup { v \in active : Pow(v) >= minPow } ELSE optIn
         cand0  == IF allowInactive THEN Bonded ELSE active
         cand   == IF topN > 0 THEN cand0 \cap op ELSE cand0
         sorted == SetToSortSeq(cand, TokBefore)
         Can(v) == /\ (v \in op \/ (topN > 0 /\ Pow(v) >= minPow))
                   /\ (allowL = {} \/ v \in allowL) /\ v \notin denyL
                   /\ tok[v] >= minStake
         filt   == SelectSeq(sorted, Can)
         part   == SelectSeq(filt, LAMBDA v : v \in prioL) \o SelectSeq(filt, LAMBDA v : v \notin prioL)
         capped == IF topN = 0 /\ valCap > 0 /\ valCap < Len(part) THEN SubSeq(part, 1, valCap) ELSE part
     IN /\ opted' = op
        /\ members' = SeqToSet(capped)
  /\ UNCHANGED <<inputs, active, minPow, outPow>>

\* NoMoreThanPercentOfTheSum, transcribed: validators sorted by power descending, one pass distributing the excess
PowerCapAlg(S, p) ==
  LET n    == Cardinality(S)
      ps   == SetToSortSeq(S, IdxBefore)
      sum  == SumOver(S, LPow)
      maxP == IF (sum * p) \div 100 = 0 THEN 1 ELSE (sum * p) \div 100
      rem0 == SumOver({ v \in S : Pow(v) >= maxP }, [ v \in Vals |-> Pow(v) - maxP ])
      cnt0 == Cardinality({ v \in S : Pow(v) < maxP })
      Step[i \in 0..n] ==
        IF i = 0 THEN [rem |-> rem0, cnt |-> cnt0, per |-> IF cnt0 # 0 THEN rem0 \div cnt0 ELSE 0, out |-> << >>]
        ELSE LET st == Step[i-1]  v == ps[i]  pw == Pow(v) IN
             IF pw >= maxP
               THEN [rem |-> st.rem, cnt |-> st.cnt, per |-> IF st.cnt = 0 THEN st.per ELSE st.rem \div st.cnt, out |-> (v :> maxP) @@ st.out]
             ELSE IF pw + st.per >= maxP
               THEN LET r2 == st.rem - (maxP - pw)  c2 == st.cnt - 1 IN
                    [rem |-> r2, cnt |-> c2, per |-> IF c2 = 0 THEN st.per ELSE r2 \div c2, out |-> (v :> maxP) @@ st.out]
             ELSE LET r2 == st.rem - st.per  c2 == st.cnt - 1 IN
                    [rem |-> r2, cnt |-> c2, per |-> IF c2 = 0 THEN st.per ELSE r2 \div c2, out |-> (v :> (pw + st.per)) @@ st.out]
  IN  Step[n].out

ComputePowers ==
  /\ stage = 3 /\ stage' = 4
  /\ outPow' = IF powCap > 0 /\ members # {} THEN PowerCapAlg(members, powCap) ELSE [ v \in members |-> Pow(v) ]
  /\ UNCHANGED <<inputs, active, minPow, opted, members>>

Next == ChooseParams \/ ComputeActive \/ ComputeMembers \/ ComputePowers
Spec == Init /\ [][Next]_vars

(* ---- declarative side: the properties as stated ---------------------------- *)
EligDecl ==
  { v \in Bonded :
      /\ (v \in opted \/ (topN > 0 /\ v \in active /\ Pow(v) >= minPow))
      /\ (allowL = {} \/ v \in allowL) /\ v \notin denyL
      /\ tok[v] >= minStake
      /\ (allowInactive \/ v \in active) }

Done == stage = 4
C02_Sound    == Done => members \subseteq EligDecl
C02_Complete == Done => ((valCap = 0 \/ topN > 0) => EligDecl \subseteq members)
C02_Power    == Done => ((powCap = 0) => \A v \in members : outPow[v] = Pow(v))
C03_Threshold == Done => ((topN > 0 /\ active # {}) => minPow = MinPowerTopN(LPow, active, topN))
C03_AutoOptIn == Done => ((topN > 0) => \A v \in active : Pow(v) >= minPow =>
                   /\ v \in opted
                   /\ ((allowL = {} \/ v \in allowL) /\ v \notin denyL /\ tok[v] >= minStake) => v \in members)
C03_Below     == Done => ((topN > 0) => \A v \in members : Pow(v) < minPow => v \in optIn)
C04_Cap       == Done => ((topN = 0 /\ valCap > 0) => CapPost(valCap, prioL, LPow, EligDecl, members))
C04_PowerCap  == Done => ((powCap > 0 /\ members # {}) => PowerCapPost(powCap, [ v \in members |-> Pow(v) ], outPow))
C15_TopM ==
  (stage >= 2) =>
    /\ Cardinality(active) = Min2(M, Cardinality(Bonded))
    /\ \A e \in Bonded \ active, m \in active : Pow(e) <= Pow(m)
=============================================================================
