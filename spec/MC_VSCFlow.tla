----------------------------- MODULE MC_VSCFlow -----------------------------
(***************************************************************************)
(* Family model: validator-set-change flow between the provider and one    *)
(* consumer (C01, C12).  The provider's shaping logic is abstracted to     *)
(* "the provider computed some non-empty next set over a small key         *)
(* universe" (which covers key swaps K -> K' -> K, removal and re-adding); *)
(* the relayer may deliver any prefix of the in-flight queue before any    *)
(* consumer block; the channel may open at any epoch, so all queued        *)
(* packets leave at once.  Actions mirror the code's critical sections:    *)
(*   Epoch        provider EndBlock at an epoch boundary: QueueVSCPackets  *)
(*                (diff, append iff non-empty, id+1) ; SendVSCPackets      *)
(*   PBlock       provider block that is not an epoch boundary             *)
(*   OpenChannel  handshake completes (OnChanOpenConfirm)                  *)
(*   Deliver      consumer OnRecvVSCPacket (AccumulateChanges, h2id)       *)
(*   CEndBlock    consumer EndBlock: ApplyCCValidatorChanges               *)
(***************************************************************************)
EXTENDS Props

CONSTANTS Keys, MaxPow, MaxEpochs, MaxQueue, MaxCHeight, BlocksPerEpoch

VARIABLES
  provSet,    \* key |-> power : the consumer validator set stored on the provider
  vscId,      \* current validator-set update id
  pHeight,    \* provider height
  v2h,        \* id |-> provider height recorded for that id
  pending,    \* packets queued on the provider (channel not yet open)
  chanOpen,
  net,        \* packets sent, not yet delivered (ordered channel)
  ccv,        \* the consumer's validator set
  pc,         \* accumulated pending changes on the consumer (key |-> power)
  recvMax,    \* id of the last packet received
  cHeight,
  h2id,       \* consumer height |-> id
  hist        \* ghost: id |-> set the provider computed (id 0 = launch set)

vars == <<provSet, vscId, pHeight, v2h, pending, chanOpen, net, ccv, pc, recvMax, cHeight, h2id, hist>>
view == <<provSet, vscId, pHeight, v2h, pending, chanOpen, net, ccv, pc, recvMax, cHeight, h2id>>

Sets == { s \in [Keys -> 0..MaxPow] : \E k \in Keys : s[k] > 0 }
AsSet(f) == [ k \in { x \in DOMAIN f : f[x] > 0 } |-> f[k] ]

InitSet == AsSet([ k \in Keys |-> IF k = CHOOSE x \in Keys : TRUE THEN 1 ELSE 0 ])

Init ==
  /\ provSet = InitSet /\ vscId = 1 /\ pHeight = 0 /\ v2h = << >>
  /\ pending = << >> /\ chanOpen = FALSE /\ net = << >>
  /\ ccv = InitSet /\ pc = << >> /\ recvMax = 0 /\ cHeight = 1 /\ h2id = (1 :> 0) @@ (2 :> 0) @@ (3 :> 0)
  /\ hist = (0 :> InitSet)

\* provider EndBlock at an epoch boundary
Epoch(new) ==
  /\ vscId <= MaxEpochs
  /\ (pHeight + 1) % BlocksPerEpoch = 0
  /\ LET ns   == AsSet(new)
         diff == DiffSets(provSet, ns)
         q    == IF diff = << >> THEN pending ELSE Append(pending, [id |-> vscId, ups |-> diff])
     IN /\ Len(q) + Len(net) <= MaxQueue
        /\ provSet' = ns
        /\ hist' = (vscId :> ns) @@ hist
        /\ v2h' = (vscId :> (pHeight + 2)) @@ v2h           \* EndBlockCIS: id |-> height + 1
        /\ vscId' = vscId + 1
        /\ pHeight' = pHeight + 1
        /\ IF chanOpen THEN net' = net \o q /\ pending' = << >>
                       ELSE net' = net /\ pending' = q
  /\ UNCHANGED <<chanOpen, ccv, pc, recvMax, cHeight, h2id>>

PBlock ==
  /\ vscId <= MaxEpochs
  /\ (pHeight + 1) % BlocksPerEpoch # 0
  /\ pHeight' = pHeight + 1
  /\ v2h' = (vscId :> (pHeight + 2)) @@ v2h
  /\ UNCHANGED <<provSet, vscId, pending, chanOpen, net, ccv, pc, recvMax, cHeight, h2id, hist>>

OpenChannel ==
  /\ ~chanOpen /\ chanOpen' = TRUE
  /\ UNCHANGED <<provSet, vscId, pHeight, v2h, pending, net, ccv, pc, recvMax, cHeight, h2id, hist>>

\* consumer OnRecvVSCPacket: later updates override earlier ones per key
Deliver ==
  /\ net # << >>
  /\ LET pk == Head(net) IN
     /\ pc' = [ k \in DOMAIN pc \cup DOMAIN pk.ups |-> IF k \in DOMAIN pk.ups THEN pk.ups[k] ELSE pc[k] ]
     /\ recvMax' = pk.id
     /\ h2id' = ((cHeight + 2) :> pk.id) @@ h2id          \* received in block cHeight+1, in force from the next
  /\ net' = Tail(net)
  /\ UNCHANGED <<provSet, vscId, pHeight, v2h, pending, chanOpen, ccv, cHeight, hist>>

CEndBlock ==
  /\ cHeight < MaxCHeight
  /\ ccv' = ApplyUpdates(ccv, pc)
  /\ pc' = << >>
  /\ cHeight' = cHeight + 1
  /\ h2id' = ((cHeight + 3) :> h2id[cHeight + 2]) @@ h2id     \* BeginBlock of the next block
  /\ UNCHANGED <<provSet, vscId, pHeight, v2h, pending, chanOpen, net, recvMax, hist>>

Next ==
  \/ \E new \in Sets : Epoch(new)
  \/ PBlock \/ OpenChannel \/ Deliver \/ CEndBlock

Spec == Init /\ [][Next]_vars

(* ---- properties ---------------------------------------------------------- *)

\* C01: the set in force (with the changes already received applied) is the provider's set for the latest id received
C01_Inv == ApplyUpdates(ccv, pc) = hist[recvMax]
\* at block boundaries nothing is pending, so the stored set itself is one of the provider's sets
C01_AtBlockEnd == (pc = << >>) => ccv = hist[recvMax]
\* ghost-free formulation: consumer set + all undelivered diffs = the provider's current set
ApplyAll(set, q) ==
  LET F[i \in 0..Len(q)] == IF i = 0 THEN set ELSE ApplyUpdates(F[i-1], q[i].ups) IN F[Len(q)]
C01_NoGhost == ApplyAll(ApplyUpdates(ccv, pc), net \o pending) = provSet
\* ids in flight strictly increase
Ids(q) == [ i \in DOMAIN q |-> q[i].id ]
C12_PacketIds ==
  LET q == net \o pending IN
  /\ \A i, j \in DOMAIN q : i < j => q[i].id < q[j].id
  /\ \A i \in DOMAIN q : q[i].id < vscId /\ q[i].id > recvMax
C12_IdPerEpoch == [][ vscId' \in {vscId, vscId + 1} /\ (vscId' = vscId + 1 <=> (pHeight' % BlocksPerEpoch = 0 /\ pHeight' # pHeight)) ]_vars
C12_IdHeight == \A id \in 1..(vscId - 1) : id \in DOMAIN v2h /\ v2h[id] = id * BlocksPerEpoch + 1
C12_ConsumerMap == h2id[cHeight + 2] = recvMax
NeverEmpty == DOMAIN ccv # {}
=============================================================================
