----------------------------- MODULE MC_Rewards -----------------------------
(***************************************************************************)
(* Family model: the flow of consumer rewards to provider validators       *)
(* (C16), one denom, integer coins only.  One action per critical section: *)
(*                                                                         *)
(*  Setup         parameters of the run (redistribution fraction in        *)
(*                quarters, blocks per transmission, community tax in      *)
(*                quarters)                                                *)
(*  Fees(c,a)     fees/inflation arriving in the consumer's fee collector  *)
(*  CEndBlock(c)  consumer distribution.go EndBlockRD:                     *)
(*                DistributeRewardsInternally (consumer part =             *)
(*                TruncateDecimal(frac * feeCollector) to the              *)
(*                redistribute account, the rest to the to-send account),  *)
(*                shouldSendRewardsToProvider (height - last >= bpdt),     *)
(*                SendRewardsToProvider (whole to-send balance in one ICS20*)
(*                transfer, memo = own consumer id; nothing when the       *)
(*                transfer channel is not OPEN or the balance is zero),    *)
(*                LastTransmissionBlockHeight updated in every case        *)
(*  Deliver(i)    provider ibc_middleware.go OnRecvPacket: the transfer    *)
(*                app credits the receiver (ConsumerRewardsPool), then the *)
(*                middleware adds the amount to the allocation of the      *)
(*                consumer NAMED IN THE MEMO (rewardMemo.ConsumerId)       *)
(*  Timeout(i)    ICS20 refund to the sender (the to-send account)         *)
(*  Foreign(c,a)  somebody else transfers to the pool address with a       *)
(*                reward memo naming consumer c (only if ~HonestMemo)      *)
(*  PBlock        next provider block                                      *)
(*  Allocate(c)   provider distribution.go BeginBlockRD -> AllocateTokens  *)
(*                -> AllocateConsumerRewards for one consumer (atomic,     *)
(*                cached context): total eligible power 0 -> everything to *)
(*                the community pool; else validators' part               *)
(*                Trunc((1-tax)*credit) is sent to the distribution module *)
(*                and AllocateTokensToConsumerValidators gives each member *)
(*                that IsEligibleForConsumerRewards (height - joinHeight   *)
(*                >= threshold) its power share of it (ineligible members  *)
(*                are left out of the total power, so eligible ones share  *)
(*                everything); community part Trunc(credit - validators'   *)
(*                part) to the community pool; the allocation keeps the    *)
(*                decimals, which for integer credits add up to 0 or 1     *)
(*                whole coin (kept in the pool and in the credit)          *)
(*  ValChange     the consumer validator set changes between crediting and *)
(*                payout (new members get joinHeight = current height)     *)
(*  DeleteC(c)    DeleteConsumerChain: the consumer drops out of           *)
(*                GetAllConsumersWithIBCClients, so Allocate skips it      *)
(*                (its credit and later deliveries stay in the pool)       *)
(*                                                                         *)
(* Rounding inside AllocateTokensToConsumerValidators: the code gives      *)
(* validator v  tokens.MulDecTruncate(power.QuoTruncate(total)) as DecCoins*)
(* and does NOT book the truncation remainder anywhere (the SDK's own      *)
(* AllocateTokens books it to the community pool; this function does not): *)
(* the coins stay in the distribution module account unattributed.  With   *)
(* 18-digit decimals that is sub-unit dust; the integer model exaggerates  *)
(* it to whole coins and keeps it in `dust`, so conservation is exact.     *)
(***************************************************************************)
EXTENDS Props

CONSTANTS Consumers, Vals,
          FeeChoices, MaxSupply,
          FracChoices,     \* ConsumerRedistributionFraction * 4
          BpdtChoices,     \* BlocksPerDistributionTransmission
          TaxChoices,      \* community tax * 4
          Threshold,       \* NumberOfEpochsToStartReceivingRewards * BlocksPerEpoch
          PowChoices,      \* powers a validator can be set to (0 = leaves)
          MaxCHeight, MaxPHeight, MaxInflight, MaxValChanges, MaxDelete, MaxChanToggles,
          HonestMemo, MaxForeign

VARIABLES
  stage,
  fee, redis, toSend, ltbh, h, chOpen, frac4, bpdt,     \* consumers
  net,                                                  \* transfers in flight: [src, memo, amt]
  pool, credit, recv, community, dust, pH, cpow, join, tax4, deleted,
  nVal, nDel, nTog, nFor,
  supply, act

consVars == <<fee, redis, toSend, ltbh, h, chOpen, frac4, bpdt>>
provVars == <<pool, credit, recv, community, dust, pH, cpow, join, tax4, deleted>>
cntVars  == <<nVal, nDel, nTog, nFor>>
vars == <<stage, consVars, net, provVars, cntVars, supply, act>>
view == <<stage, consVars, net, provVars, cntVars, supply>>

ZeroC == [ c \in Consumers |-> 0 ]
SumNet == LET F[i \in 0..Len(net)] == IF i = 0 THEN 0 ELSE F[i-1] + net[i].amt IN F[Len(net)]
Total == SumFn(fee) + SumFn(redis) + SumFn(toSend) + SumNet + pool + SumFn(recv) + community + dust
RemoveAt(s, i) == SubSeq(s, 1, i - 1) \o SubSeq(s, i + 1, Len(s))

MC_InitPow == [ c \in Consumers |-> [ v \in Vals |-> IF v = "v1" THEN 2 ELSE IF v = "v2" THEN 1 ELSE 0 ] ]

Init ==
  /\ stage = 0
  /\ fee = ZeroC /\ redis = ZeroC /\ toSend = ZeroC /\ ltbh = ZeroC /\ h = [ c \in Consumers |-> 1 ]
  /\ chOpen = [ c \in Consumers |-> TRUE ] /\ frac4 = ZeroC /\ bpdt = [ c \in Consumers |-> 1 ]
  /\ net = << >>
  /\ pool = 0 /\ credit = ZeroC /\ recv = [ v \in Vals |-> 0 ] /\ community = 0 /\ dust = 0 /\ pH = 1
  /\ cpow = MC_InitPow /\ join = [ c \in Consumers |-> [ v \in Vals |-> 0 ] ]
  /\ tax4 = 0 /\ deleted = [ c \in Consumers |-> FALSE ]
  /\ nVal = 0 /\ nDel = 0 /\ nTog = 0 /\ nFor = 0
  /\ supply = 0 /\ act = [name |-> "Init"]

Setup ==
  /\ stage = 0 /\ stage' = 1
  /\ frac4' \in [Consumers -> FracChoices]
  /\ bpdt' \in [Consumers -> BpdtChoices]
  /\ tax4' \in TaxChoices
  /\ act' = [name |-> "Setup"]
  /\ UNCHANGED <<fee, redis, toSend, ltbh, h, chOpen, net, pool, credit, recv, community, dust, pH, cpow, join, deleted, cntVars, supply>>

Fees(c, a) ==
  /\ stage = 1 /\ supply + a <= MaxSupply
  /\ fee' = [fee EXCEPT ![c] = @ + a] /\ supply' = supply + a
  /\ act' = [name |-> "Fees", c |-> c, amt |-> a]
  /\ UNCHANGED <<stage, redis, toSend, ltbh, h, chOpen, frac4, bpdt, net, provVars, cntVars>>

CEndBlock(c) ==
  /\ stage = 1 /\ h[c] < MaxCHeight
  /\ LET keep  == (frac4[c] * fee[c]) \div 4                     \* TruncateDecimal(frac * feePool)
         ts    == toSend[c] + (fee[c] - keep)
         due   == h[c] - ltbh[c] >= bpdt[c]
         sends == due /\ chOpen[c] /\ ts > 0
     IN /\ (sends => Len(net) < MaxInflight)
        /\ redis' = [redis EXCEPT ![c] = @ + keep]
        /\ fee' = [fee EXCEPT ![c] = 0]
        /\ toSend' = [toSend EXCEPT ![c] = IF sends THEN 0 ELSE ts]
        /\ net' = IF sends THEN Append(net, [src |-> c, memo |-> c, amt |-> ts]) ELSE net
        /\ ltbh' = [ltbh EXCEPT ![c] = IF due THEN h[c] ELSE @]
        /\ act' = [name |-> "CEndBlock", c |-> c, sent |-> IF sends THEN ts ELSE 0]
  /\ h' = [h EXCEPT ![c] = @ + 1]
  /\ UNCHANGED <<stage, chOpen, frac4, bpdt, provVars, cntVars, supply>>

ToggleChannel(c) ==
  /\ stage = 1 /\ nTog < MaxChanToggles /\ nTog' = nTog + 1
  /\ chOpen' = [chOpen EXCEPT ![c] = ~@]
  /\ act' = [name |-> "ToggleChannel"]
  /\ UNCHANGED <<stage, fee, redis, toSend, ltbh, h, frac4, bpdt, net, provVars, nVal, nDel, nFor, supply>>

Deliver(i) ==
  /\ stage = 1
  /\ LET t == net[i] IN
     /\ pool' = pool + t.amt                                     \* ICS20 OnRecvPacket: receiver = ConsumerRewardsPool
     /\ credit' = [credit EXCEPT ![t.memo] = @ + t.amt]          \* middleware: consumer id from the memo
     /\ act' = [name |-> "Deliver", t |-> t]
  /\ net' = RemoveAt(net, i)
  /\ UNCHANGED <<stage, consVars, recv, community, dust, pH, cpow, join, tax4, deleted, cntVars, supply>>

Timeout(i) ==
  /\ stage = 1 /\ net[i].src \in Consumers
  /\ toSend' = [toSend EXCEPT ![net[i].src] = @ + net[i].amt]
  /\ net' = RemoveAt(net, i)
  /\ act' = [name |-> "Timeout", t |-> net[i]]
  /\ UNCHANGED <<stage, fee, redis, ltbh, h, chOpen, frac4, bpdt, provVars, cntVars, supply>>

Foreign(c, a) ==
  /\ stage = 1 /\ ~HonestMemo /\ nFor < MaxForeign /\ nFor' = nFor + 1
  /\ supply + a <= MaxSupply /\ Len(net) < MaxInflight
  /\ net' = Append(net, [src |-> "other", memo |-> c, amt |-> a]) /\ supply' = supply + a
  /\ act' = [name |-> "Foreign"]
  /\ UNCHANGED <<stage, consVars, provVars, nVal, nDel, nTog>>

PBlock ==
  /\ stage = 1 /\ pH < MaxPHeight /\ pH' = pH + 1
  /\ act' = [name |-> "PBlock"]
  /\ UNCHANGED <<stage, consVars, net, pool, credit, recv, community, dust, cpow, join, tax4, deleted, cntVars, supply>>

Eligible(c) == { v \in Vals : cpow[c][v] > 0 /\ pH - join[c][v] >= Threshold }    \* IsEligibleForConsumerRewards

Allocate(c) ==
  /\ stage = 1 /\ pH > 1 /\ ~deleted[c] /\ credit[c] > 0
  /\ LET el == Eligible(c)
         T  == SumOver(el, cpow[c])                              \* ComputeConsumerTotalVotingPower
         C  == credit[c]
     IN IF T = 0
          THEN /\ community' = community + C /\ pool' = pool - C
               /\ credit' = [credit EXCEPT ![c] = 0]
               /\ UNCHANGED <<recv, dust>>
          ELSE LET V    == (C * (4 - tax4)) \div 4               \* Trunc(credit * (1 - tax))
                   Rm   == (C * tax4) \div 4                     \* Trunc(credit - credit * (1 - tax))
                   pay  == [ v \in Vals |-> IF v \in el THEN (V * cpow[c][v]) \div T ELSE 0 ]
               IN /\ recv' = [ v \in Vals |-> recv[v] + pay[v] ]
                  /\ dust' = dust + (V - SumFn(pay))             \* stays in the distribution module, unbooked
                  /\ community' = community + Rm
                  /\ pool' = pool - V - Rm
                  /\ credit' = [credit EXCEPT ![c] = C - V - Rm] \* the two decimal remainders: 0 or 1 coin
  /\ act' = [name |-> "Allocate", c |-> c]
  /\ UNCHANGED <<stage, consVars, net, pH, cpow, join, tax4, deleted, cntVars, supply>>

ValChange(c, v, p) ==
  /\ stage = 1 /\ nVal < MaxValChanges /\ nVal' = nVal + 1
  /\ p # cpow[c][v]
  /\ cpow' = [cpow EXCEPT ![c][v] = p]
  /\ join' = IF cpow[c][v] = 0 THEN [join EXCEPT ![c][v] = pH] ELSE join
  /\ act' = [name |-> "ValChange"]
  /\ UNCHANGED <<stage, consVars, net, pool, credit, recv, community, dust, pH, tax4, deleted, nDel, nTog, nFor, supply>>

DeleteC(c) ==
  /\ stage = 1 /\ nDel < MaxDelete /\ nDel' = nDel + 1
  /\ ~deleted[c] /\ deleted' = [deleted EXCEPT ![c] = TRUE]
  /\ act' = [name |-> "DeleteC"]
  /\ UNCHANGED <<stage, consVars, net, pool, credit, recv, community, dust, pH, cpow, join, tax4, nVal, nTog, nFor, supply>>

Next ==
  \/ Setup
  \/ \E c \in Consumers :
       \/ \E a \in FeeChoices : Fees(c, a) \/ Foreign(c, a)
       \/ CEndBlock(c) \/ ToggleChannel(c) \/ Allocate(c) \/ DeleteC(c)
       \/ \E v \in Vals, p \in PowChoices : ValChange(c, v, p)
  \/ \E i \in DOMAIN net : Deliver(i) \/ Timeout(i)
  \/ PBlock

Spec == Init /\ [][Next]_vars

(* ==== properties ========================================================== *)
\* per consumer block: consumer share = floor(frac * fees), the rest goes to the to-send account (or out with it)
C16_Split == [][ act'.name = "CEndBlock" => LET c == act'.c IN
      /\ fee'[c] = 0
      /\ 4 * (redis'[c] - redis[c]) <= frac4[c] * fee[c] /\ frac4[c] * fee[c] < 4 * (redis'[c] - redis[c] + 1)
      /\ (toSend'[c] + act'.sent) - toSend[c] = fee[c] - (redis'[c] - redis[c])
      /\ act'.sent > 0 => (toSend'[c] = 0 /\ chOpen[c] /\ h[c] - ltbh[c] >= bpdt[c]
                           /\ net' = Append(net, [src |-> c, memo |-> c, amt |-> act'.sent]))
      /\ act'.sent = 0 => net' = net
      /\ \A d \in Consumers \ {c} : fee'[d] = fee[d] /\ redis'[d] = redis[d] /\ toSend'[d] = toSend[d]
      /\ UNCHANGED <<pool, credit, recv, community, dust>> ]_vars
\* the credit of a consumer grows exactly by what is delivered from it, and by nothing else
C16_Credit == [][
      /\ act'.name = "Deliver" => LET t == act'.t IN
           /\ pool' = pool + t.amt
           /\ t.src \in Consumers => credit' = [credit EXCEPT ![t.src] = @ + t.amt]
           /\ SumFn(credit') = SumFn(credit) + t.amt
      /\ act'.name \notin {"Deliver", "Allocate"} => credit' = credit
      /\ act'.name = "Allocate" => \A c \in Consumers : credit'[c] <= credit[c] ]_vars
C16_Solvent == pool >= SumFn(credit)
\* payout
C16_Payout == [][ act'.name = "Allocate" => LET c == act'.c  moved == pool - pool'  paid == SumFn(recv') - SumFn(recv) IN
      /\ moved = credit[c] - credit'[c] /\ moved >= 0
      /\ \A d \in Consumers \ {c} : credit'[d] = credit[d]
      /\ \A v \in Vals : recv'[v] >= recv[v]
      /\ \A v \in Vals : recv'[v] > recv[v] => v \in Eligible(c)
      /\ paid <= moved
      /\ moved = paid + (community' - community) + (dust' - dust)
      /\ community' >= community /\ dust' >= dust
      /\ credit'[c] \in {0, 1}
      \* shares are proportional to power among the eligible members (floor)
      /\ LET el == Eligible(c) T == SumOver(el, cpow[c]) V == paid + (dust' - dust) IN
         \A v \in el : LET q == recv'[v] - recv[v] IN q * T <= V * cpow[c][v] /\ V * cpow[c][v] < (q + 1) * T
      /\ dust' - dust < Max2(1, Cardinality(Eligible(c))) ]_vars
C16_Conservation == Total = supply
C16_ConservationStep == [][ act'.name \notin {"Fees", "Foreign"} => (supply' = supply) ]_vars
C16_NonNegative ==
  /\ pool >= 0 /\ community >= 0 /\ dust >= 0
  /\ \A c \in Consumers : fee[c] >= 0 /\ redis[c] >= 0 /\ toSend[c] >= 0 /\ credit[c] >= 0
  /\ \A v \in Vals : recv[v] >= 0
=============================================================================
