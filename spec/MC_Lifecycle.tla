---------------------------- MODULE MC_Lifecycle ----------------------------
(***************************************************************************)
(* Family model: consumer lifecycle, authority, launch / removal schedule, *)
(* rollback and infraction parameters on the provider                      *)
(* (C10, C14, C19, C20, the scheduling part of C11).                       *)
(*                                                                         *)
(* Store: nextId; per consumer id a record cons[c] =                       *)
(*   phase  ConsumerIdToPhase            owner  ConsumerIdToOwnerAddress   *)
(*   spawn  InitializationParameters.SpawnTime (0 = zero time)             *)
(*   topN   PowerShapingParameters.Top_N  rm    ConsumerIdToRemovalTime (0 = absent) *)
(*   infr   ConsumerIdToInfractionParameters                               *)
(*   qd     ConsumerIdToQueuedInfractionParameters ("none" = absent)       *)
(*   qdDue  ghost: the time at which qd was scheduled (the code finds it by scanning the queue) *)
(* and three time queues (SpawnTimeToConsumerIds, RemovalTimeToConsumerIds, *)
(* InfractionScheduledTimeToConsumerIds) as sequences of [t, ids] sorted by *)
(* t -- the iteration order of the store -- with ids in insertion order.   *)
(*                                                                         *)
(*   QAppend / QRemove / QConsume   consumer_lifecycle.go appendConsumerIdOnTime,               *)
(*                        removeConsumerIdFromTime (with its two error returns), and            *)
(*                        ConsumeIdsFromTimeQueue (limit checked at the top of the loop, a      *)
(*                        partially consumed timestamp is deleted and its remainder stored back)*)
(*   Create(s,sp,tn)      msg_server.go CreateConsumer: FetchAndIncrementConsumerId, owner :=   *)
(*                        submitter, Top_N # 0 refused, InitializeConsumer +                    *)
(*                        PrepareConsumerForLaunch(zero, spawn)                                 *)
(*   Update(s,c,..)       msg_server.go UpdateConsumer, statement by statement in code order:   *)
(*                        IsConsumerActive; msg.Owner = stored owner; SetConsumerOwnerAddress;  *)
(*                        initialization parameters (pre-launch only; zero spawn time on an     *)
(*                        initialized consumer: RemoveConsumerToBeLaunched, phase registered);  *)
(*                        power shaping (Top_N > 0 needs the owner BEFORE the message = gov);   *)
(*                        infraction parameters (SetInfractionParameters pre-launch, else       *)
(*                        infraction_parameters.go UpdateQueuedInfractionParams, including the  *)
(*                        double removal in RemoveConsumerInfractionQueuedData);                *)
(*                        final check Top_N # 0 => owner = gov; InitializeConsumer +            *)
(*                        PrepareConsumerForLaunch(previousSpawnTime, spawnTime).               *)
(*                        Any error return = SDK discards the cached store = nothing changes.   *)
(*   Remove(s,c)          msg_server.go RemoveConsumer -> StopAndPrepareForConsumerRemoval      *)
(*   Timeout(c)           relay.go OnTimeoutPacket / OnAcknowledgementPacket(error) /           *)
(*                        SendVSCPacketsToChain failure -> StopAndPrepareForConsumerRemoval.    *)
(*                        The first two have NO phase check and the channel mapping exists      *)
(*                        until deletion, so with StopTwice = TRUE the action is also enabled   *)
(*                        for a stopped consumer (second in-flight packet timing out).          *)
(*   Tick                 next block (time + 1) and the first half of BeginBlockLaunchConsumers:*)
(*                        ConsumeIdsFromTimeQueue on the spawn queue into `todo`                *)
(*   LaunchOK / LaunchFail  one iteration of the loop in BeginBlockLaunchConsumers: LaunchConsumer *)
(*                        in a cached context succeeds (needs phase initialized: CreateConsumerClient) *)
(*                        or fails for an environment reason: spawn time zeroed, phase registered*)
(*   RemoveDue            BeginBlockRemoveConsumers: consume, DeleteConsumerChain for each id   *)
(*                        (refused unless stopped; RemoveConsumerInfractionQueuedData)          *)
(*   ApplyInfraction      BeginBlockUpdateInfractionParameters; a consumed id without queued    *)
(*                        parameters makes BeginBlock return an error (halted)                  *)
(* `lbl` names the last step with its arguments; it is excluded from the VIEW.                  *)
(***************************************************************************)
EXTENDS Props

CONSTANTS MaxId, MaxTime, U, Limit,
          Senders, Gov,
          Creators,         \* senders of MsgCreateConsumer (a subset of Senders; the others only act as outsiders / new owners)
          SpawnChoices,     \* non-zero spawn times usable in Create / Update
          TopNChoices,      \* Top_N values usable in Create / Update (0 and one value in 50..100)
          InfrVals, DefaultInfr,
          OwnerUpd, SpawnUpd, TopNUpd, InfrUpd,  \* optional-field choices of MsgUpdateConsumer (without the "absent" value)
          MaxFields,        \* at most this many optional fields present in one MsgUpdateConsumer
          StopTwice         \* Timeout also enabled for an already stopped consumer

NoneS == "none"     \* absent string field
NoneI == -1         \* absent integer field
Ids == 0..(MaxId - 1)

VARIABLES nextId, cons, launchQ, removeQ, infrQ, now, pc, todo, halted, lbl
core == <<nextId, cons, launchQ, removeQ, infrQ, now, pc, todo, halted>>
vars == <<nextId, cons, launchQ, removeQ, infrQ, now, pc, todo, halted, lbl>>
view == core

ActivePh == {"registered", "initialized", "launched"}
PrePh    == {"registered", "initialized"}
Blank == [phase |-> "none", owner |-> NoneS, spawn |-> 0, topN |-> 0, rm |-> 0,
          infr |-> DefaultInfr, qd |-> NoneS, qdDue |-> 0]
Lbl(a, c, s, ok, no, ns, nt, ni) == [a |-> a, c |-> c, s |-> s, ok |-> ok, no |-> no, ns |-> ns, nt |-> nt, ni |-> ni]
L0(a, c, s, ok) == Lbl(a, c, s, ok, NoneS, NoneI, NoneI, NoneS)

(* ---- time queues ------------------------------------------------------------- *)
Cut(s, j) == SubSeq(s, 1, j - 1) \o SubSeq(s, j + 1, Len(s))

QAppend(q, c, t) ==
  IF \E i \in DOMAIN q : q[i].t = t
    THEN [ i \in DOMAIN q |-> IF q[i].t = t THEN [q[i] EXCEPT !.ids = Append(@, c)] ELSE q[i] ]
    ELSE LET k == Cardinality({ i \in DOMAIN q : q[i].t < t })
         IN  SubSeq(q, 1, k) \o << [t |-> t, ids |-> <<c>>] >> \o SubSeq(q, k + 1, Len(q))

QRemove(q, c, t) ==
  LET I == { i \in DOMAIN q : q[i].t = t } IN
  IF I = {} THEN [ok |-> FALSE, q |-> q]                                   \* "no consumer ids found for this time"
  ELSE LET i == CHOOSE x \in I : TRUE
           ids == q[i].ids
           J == { j \in DOMAIN ids : ids[j] = c }
       IN IF J = {} THEN [ok |-> FALSE, q |-> q]                           \* "failed to find consumer id"
          ELSE [ok |-> TRUE,
                q |-> IF Len(ids) = 1 THEN Cut(q, i) ELSE [q EXCEPT ![i].ids = Cut(ids, Min(J))]]

QConsume(q, t, limit) ==
  LET Step[i \in 0..Len(q)] ==
        IF i = 0 THEN [res |-> << >>, next |-> << >>, ndel |-> 0, stop |-> FALSE]
        ELSE LET p == Step[i - 1] IN
             IF p.stop \/ Len(p.res) >= limit \/ q[i].t > t THEN [p EXCEPT !.stop = TRUE]
             ELSE LET avail == limit - Len(p.res)  ids == q[i].ids IN
                  IF avail >= Len(ids)
                    THEN [res |-> p.res \o ids, next |-> << >>, ndel |-> i, stop |-> FALSE]
                    ELSE [res |-> p.res \o SubSeq(ids, 1, avail), next |-> SubSeq(ids, avail + 1, Len(ids)),
                          ndel |-> i, stop |-> TRUE]
      f == Step[Len(q)]
      back == IF f.next # << >> THEN << [t |-> q[f.ndel].t, ids |-> f.next] >> ELSE << >>
  IN  [ids |-> f.res, q |-> back \o SubSeq(q, f.ndel + 1, Len(q))]

Pos(q) == UNION { {i} \X DOMAIN q[i].ids : i \in DOMAIN q }
Occ(q, c) == Cardinality({ p \in Pos(q) : q[p[1]].ids[p[2]] = c })
OccAt(q, c, t) == Cardinality({ p \in Pos(q) : q[p[1]].ids[p[2]] = c /\ q[p[1]].t = t })
Flat(q) ==
  LET F[i \in 0..Len(q)] == IF i = 0 THEN << >>
                            ELSE F[i - 1] \o [ j \in DOMAIN q[i].ids |-> [t |-> q[i].t, c |-> q[i].ids[j]] ]
  IN  F[Len(q)]

Init ==
  /\ nextId = 0 /\ cons = [c \in Ids |-> Blank]
  /\ launchQ = << >> /\ removeQ = << >> /\ infrQ = << >>
  /\ now = 0 /\ pc = "txs" /\ todo = << >> /\ halted = FALSE
  /\ lbl = L0("Init", NoneI, NoneS, TRUE)

(* ---- infraction parameter queue ------------------------------------------------ *)
\* RemoveConsumerInfractionQueuedData on record r of consumer c
RemoveInfrQueued(r, c, iq) ==
  IF r.qd = NoneS THEN [r |-> r, iq |-> iq]
  ELSE LET r2  == [r EXCEPT !.qd = NoneS, !.qdDue = 0]                       \* DeleteQueuedInfractionParameters
           idx == { i \in DOMAIN iq : \E j \in DOMAIN iq[i].ids : iq[i].ids[j] = c }
       IN IF idx = {} THEN [r |-> r2, iq |-> iq]                             \* GetConsumerInfractionUpdateTime: not found
          ELSE LET ts == iq[Min(idx)].t
                   q1 == QRemove(iq, c, ts).q                                \* removal inside GetConsumerInfractionUpdateTime
                   x2 == QRemove(q1, c, ts)                                  \* second removal, its error is ignored
               IN [r |-> r2, iq |-> IF x2.ok THEN x2.q ELSE q1]

\* UpdateQueuedInfractionParams
UpdateQueued(r, c, new, iq) ==
  LET x == RemoveInfrQueued(r, c, iq) IN
  IF new = x.r.infr THEN x
  ELSE [r |-> [x.r EXCEPT !.qd = new, !.qdDue = now + U], iq |-> QAppend(x.iq, c, now + U)]

(* ---- messages -------------------------------------------------------------------- *)
Create(s, sp, tn) ==
  /\ pc = "txs" /\ nextId < MaxId
  /\ LET c == nextId  ok == tn = 0 IN
     /\ lbl' = Lbl("Create", c, s, ok, NoneS, sp, tn, NoneS)
     /\ IF ok
          THEN /\ nextId' = nextId + 1
               /\ cons' = [cons EXCEPT ![c] = [Blank EXCEPT !.phase = IF sp # 0 THEN "initialized" ELSE "registered",
                                                            !.owner = s, !.spawn = sp]]
               /\ launchQ' = IF sp # 0 THEN QAppend(launchQ, c, sp) ELSE launchQ
          ELSE UNCHANGED <<nextId, cons, launchQ>>
  /\ UNCHANGED <<removeQ, infrQ, now, pc, todo, halted>>

UpdateRes(s, c, no, ns, nt, ni) ==
  LET c0  == cons[c]
      rej == [ok |-> FALSE, r |-> c0, lq |-> launchQ, iq |-> infrQ]
  IN
  IF c0.phase \notin ActivePh THEN rej                                        \* IsConsumerActive
  ELSE IF s # c0.owner THEN rej                                               \* ErrUnauthorized
  ELSE
    LET ownerBefore == c0.owner
        c1   == IF no # NoneS THEN [c0 EXCEPT !.owner = no] ELSE c0           \* SetConsumerOwnerAddress
        prev == c1.spawn                                                      \* previousSpawnTime
        initErr == ns # NoneI /\ c1.phase \notin PrePh
        clr  == ns = 0 /\ c1.phase = "initialized"
        rm1  == IF clr THEN QRemove(launchQ, c, prev) ELSE [ok |-> TRUE, q |-> launchQ]
        c2   == IF ns = NoneI THEN c1
                ELSE [c1 EXCEPT !.spawn = ns, !.phase = IF clr THEN "registered" ELSE @]
        topErr == nt # NoneI /\ nt > 0 /\ ownerBefore # Gov                   \* ErrInvalidTransformToTopN
        c3   == IF nt = NoneI THEN c2 ELSE [c2 EXCEPT !.topN = nt]
        inf  == IF ni = NoneS THEN [r |-> c3, iq |-> infrQ]
                ELSE IF c3.phase \in PrePh THEN [r |-> [c3 EXCEPT !.infr = ni], iq |-> infrQ]
                ELSE UpdateQueued(c3, c, ni, infrQ)
        c4   == inf.r
        finalErr == c4.topN # 0 /\ c4.owner # Gov                             \* ErrInvalidTransformToOptIn
        doInit == c4.phase \in PrePh /\ c4.spawn # 0                          \* InitializeConsumer
        rm2  == IF doInit /\ prev # 0 THEN QRemove(rm1.q, c, prev) ELSE [ok |-> TRUE, q |-> rm1.q]
        lq2  == IF doInit THEN QAppend(rm2.q, c, c4.spawn) ELSE rm2.q         \* PrepareConsumerForLaunch
        c5   == IF doInit THEN [c4 EXCEPT !.phase = "initialized"] ELSE c4
    IN IF initErr \/ ~rm1.ok \/ topErr \/ finalErr \/ ~rm2.ok THEN rej
       ELSE [ok |-> TRUE, r |-> c5, lq |-> lq2, iq |-> inf.iq]

Fields(no, ns, nt, ni) ==
  (IF no # NoneS THEN 1 ELSE 0) + (IF ns # NoneI THEN 1 ELSE 0) + (IF nt # NoneI THEN 1 ELSE 0) + (IF ni # NoneS THEN 1 ELSE 0)

Update(s, c, no, ns, nt, ni) ==
  /\ pc = "txs" /\ Fields(no, ns, nt, ni) <= MaxFields
  /\ LET x == UpdateRes(s, c, no, ns, nt, ni) IN
     /\ cons' = [cons EXCEPT ![c] = x.r]
     /\ launchQ' = x.lq /\ infrQ' = x.iq
     /\ lbl' = Lbl("Update", c, s, x.ok, no, ns, nt, ni)
  /\ UNCHANGED <<nextId, removeQ, now, pc, todo, halted>>

\* StopAndPrepareForConsumerRemoval
StopCons(c) ==
  /\ cons' = [cons EXCEPT ![c].phase = "stopped", ![c].rm = now + U]
  /\ removeQ' = QAppend(removeQ, c, now + U)

Remove(s, c) ==
  /\ pc = "txs"
  /\ LET ok == cons[c].phase # "none" /\ s = cons[c].owner /\ cons[c].phase = "launched" IN
     /\ lbl' = L0("Remove", c, s, ok)
     /\ IF ok THEN StopCons(c) ELSE UNCHANGED <<cons, removeQ>>
  /\ UNCHANGED <<nextId, launchQ, infrQ, now, pc, todo, halted>>

Timeout(c) ==
  /\ pc = "txs"
  /\ cons[c].phase = "launched" \/ (StopTwice /\ cons[c].phase = "stopped")
  /\ StopCons(c)
  /\ lbl' = L0("Timeout", c, NoneS, TRUE)
  /\ UNCHANGED <<nextId, launchQ, infrQ, now, pc, todo, halted>>

(* ---- BeginBlock -------------------------------------------------------------------- *)
Tick ==
  /\ pc = "txs" /\ now < MaxTime /\ ~halted
  /\ now' = now + 1
  /\ LET x == QConsume(launchQ, now + 1, Limit) IN launchQ' = x.q /\ todo' = x.ids
  /\ pc' = "launch"
  /\ lbl' = L0("Tick", NoneI, NoneS, TRUE)
  /\ UNCHANGED <<nextId, cons, removeQ, infrQ, halted>>

LaunchOK ==
  /\ pc = "launch" /\ todo # << >>
  /\ cons[Head(todo)].phase = "initialized"
  /\ cons' = [cons EXCEPT ![Head(todo)].phase = "launched"]
  /\ todo' = Tail(todo)
  /\ lbl' = L0("LaunchOK", Head(todo), NoneS, TRUE)
  /\ UNCHANGED <<nextId, launchQ, removeQ, infrQ, now, pc, halted>>

LaunchFail ==
  /\ pc = "launch" /\ todo # << >>
  /\ cons' = [cons EXCEPT ![Head(todo)].phase = "registered", ![Head(todo)].spawn = 0]
  /\ todo' = Tail(todo)
  /\ lbl' = L0("LaunchFail", Head(todo), NoneS, TRUE)
  /\ UNCHANGED <<nextId, launchQ, removeQ, infrQ, now, pc, halted>>

\* DeleteConsumerChain on the pair st = [cons, iq]
DeleteChain(st, c) ==
  IF st.cons[c].phase # "stopped" THEN st                                     \* "cannot delete non-stopped chain"
  ELSE LET x == RemoveInfrQueued(st.cons[c], c, st.iq)
       IN [cons |-> [st.cons EXCEPT ![c] = [x.r EXCEPT !.phase = "deleted", !.rm = 0]], iq |-> x.iq]

RemoveDue ==
  /\ pc = "launch" /\ todo = << >>
  /\ LET x == QConsume(removeQ, now, Limit)
         F[i \in 0..Len(x.ids)] == IF i = 0 THEN [cons |-> cons, iq |-> infrQ] ELSE DeleteChain(F[i - 1], x.ids[i])
         fin == F[Len(x.ids)]
     IN removeQ' = x.q /\ cons' = fin.cons /\ infrQ' = fin.iq
  /\ pc' = "infr"
  /\ lbl' = L0("RemoveDue", NoneI, NoneS, TRUE)
  /\ UNCHANGED <<nextId, launchQ, now, todo, halted>>

ApplyInfraction ==
  /\ pc = "infr"
  /\ LET x == QConsume(infrQ, now, Limit)
         F[i \in 0..Len(x.ids)] ==
           IF i = 0 THEN [cons |-> cons, err |-> FALSE]
           ELSE LET p == F[i - 1]  c == x.ids[i] IN
                IF p.err THEN p
                ELSE IF p.cons[c].qd = NoneS THEN [p EXCEPT !.err = TRUE]          \* GetQueuedInfractionParameters fails
                ELSE [p EXCEPT !.cons = [p.cons EXCEPT ![c].infr = p.cons[c].qd, ![c].qd = NoneS, ![c].qdDue = 0]]
         fin == F[Len(x.ids)]
     IN infrQ' = x.q /\ cons' = fin.cons /\ halted' = fin.err
  /\ pc' = "txs"
  /\ lbl' = L0("ApplyInfraction", NoneI, NoneS, TRUE)
  /\ UNCHANGED <<nextId, launchQ, removeQ, now, todo>>

Next ==
  \/ \E s \in Creators, sp \in SpawnChoices \cup {0}, tn \in TopNChoices : Create(s, sp, tn)
  \/ \E s \in Senders, c \in Ids, no \in OwnerUpd \cup {NoneS}, ns \in SpawnUpd \cup {NoneI},
        nt \in TopNUpd \cup {NoneI}, ni \in InfrUpd \cup {NoneS} : Update(s, c, no, ns, nt, ni)
  \/ \E s \in Senders, c \in Ids : Remove(s, c)
  \/ \E c \in Ids : Timeout(c)
  \/ Tick \/ LaunchOK \/ LaunchFail \/ RemoveDue \/ ApplyInfraction

Spec == Init /\ [][Next]_vars

(* ---- properties ------------------------------------------------------------------- *)
QueueWF(q) ==
  /\ \A i \in DOMAIN q : q[i].ids # << >> /\ q[i].t \in 1..(MaxTime + U)
  /\ \A i, j \in DOMAIN q : i < j => q[i].t < q[j].t
TypeOK ==
  /\ nextId \in 0..MaxId /\ now \in 0..MaxTime /\ pc \in {"txs", "launch", "infr"}
  /\ \A c \in Ids : /\ cons[c].phase \in Phases
                    /\ cons[c].owner \in Senders \cup {NoneS}
                    /\ cons[c].spawn \in SpawnChoices \cup SpawnUpd \cup {0}
                    /\ cons[c].topN \in TopNChoices \cup TopNUpd \cup {0}
                    /\ cons[c].infr \in InfrVals /\ cons[c].qd \in InfrVals \cup {NoneS}
  /\ QueueWF(launchQ) /\ QueueWF(removeQ) /\ QueueWF(infrQ)

C10_Ids == \A c \in Ids : (cons[c].phase # "none") <=> c < nextId
C10_IdsStep ==
  [][ /\ nextId' \in {nextId, nextId + 1}
      /\ (nextId' = nextId + 1 <=> (lbl'.a = "Create" /\ lbl'.ok))
      /\ (lbl'.a = "Create" /\ lbl'.ok => lbl'.c = nextId /\ cons[nextId].phase = "none" /\ cons'[nextId].owner = lbl'.s)
    ]_vars
C10_PhaseStep == [][ \A c \in Ids : <<cons[c].phase, cons'[c].phase>> \in PhaseEdges ]_vars
C10_InitIffSpawn == \A c \in Ids : cons[c].phase \in PrePh => (cons[c].phase = "initialized" <=> cons[c].spawn # 0)
InTodo(c) == \E i \in DOMAIN todo : todo[i] = c
C10_QueueExact ==
  /\ \A c \in Ids :
       IF cons[c].phase = "initialized" /\ ~InTodo(c)
         THEN Occ(launchQ, c) = 1 /\ OccAt(launchQ, c, cons[c].spawn) = 1
         ELSE Occ(launchQ, c) = 0
  /\ \A i, j \in DOMAIN todo : i # j => todo[i] # todo[j]
  /\ \A i \in DOMAIN todo : cons[todo[i]].phase = "initialized"
  /\ (pc # "launch" => todo = << >>)

\* what ConsumeIdsFromTimeQueue must do, stated on the flattened (time, insertion) order
Due(q, t)      == SelectSeq(Flat(q), LAMBDA e : e.t <= t)
Taken(q, t)    == LET d == Due(q, t) IN [ i \in 1..Min2(Limit, Len(d)) |-> d[i].c ]
ConsumePost(q, q2, t) ==
  LET F == Flat(q)  n == Len(Taken(q, t)) IN
  /\ Flat(q2) = SubSeq(F, n + 1, Len(F))                                  \* a prefix in (time, insertion) order is taken
  /\ ((\A i \in DOMAIN q2 : q2[i].t > t) \/ n = Limit)                    \* nothing due remains unless the limit was hit
C10_LaunchWhenDue ==
  [][ /\ (lbl'.a = "Tick" => todo' = Taken(launchQ, now') /\ ConsumePost(launchQ, launchQ', now'))
      /\ (lbl'.a # "Tick" /\ lbl'.a # "Update" /\ lbl'.a # "Create" => launchQ' = launchQ)
      /\ \A c \in Ids : cons[c].phase # "launched" /\ cons'[c].phase = "launched" =>
             lbl'.a = "LaunchOK" /\ lbl'.c = c /\ c = Head(todo) /\ cons[c].spawn <= now /\ cons[c].spawn # 0
      /\ (lbl'.a \in {"LaunchOK", "LaunchFail"} => lbl'.c = Head(todo) /\ todo' = Tail(todo))
    ]_vars
C14_Owner ==
  [][ /\ (lbl'.a \in {"Update", "Remove"} /\ lbl'.ok => lbl'.s = cons[lbl'.c].owner)
      /\ \A c \in Ids : cons'[c].owner # cons[c].owner =>
           \/ lbl'.a = "Create" /\ lbl'.ok /\ lbl'.c = c /\ cons[c].phase = "none" /\ cons'[c].owner = lbl'.s
           \/ lbl'.a = "Update" /\ lbl'.ok /\ lbl'.c = c /\ lbl'.s = cons[c].owner /\ lbl'.no = cons'[c].owner
    ]_vars
C14_TopN == \A c \in Ids : cons[c].topN # 0 => cons[c].owner = Gov
C14_RejectedUnchanged ==
  [][ /\ (~lbl'.ok => UNCHANGED core)
      /\ (lbl'.a = "Update" /\ (lbl'.s # cons[lbl'.c].owner \/ cons[lbl'.c].phase \notin ActivePh) => ~lbl'.ok)
      /\ (lbl'.a = "Update" /\ lbl'.ns # NoneI /\ cons[lbl'.c].phase \notin PrePh => ~lbl'.ok)
      /\ (lbl'.a = "Update" /\ lbl'.nt # NoneI /\ lbl'.nt > 0 /\ cons[lbl'.c].owner # Gov => ~lbl'.ok)
      /\ (lbl'.a = "Remove" /\ (lbl'.s # cons[lbl'.c].owner \/ cons[lbl'.c].phase # "launched") => ~lbl'.ok)
      /\ (lbl'.a = "Create" /\ lbl'.nt # 0 => ~lbl'.ok)
    ]_vars

C19_LaunchFailRollback ==
  [][ lbl'.a = "LaunchFail" =>
        /\ cons' = [cons EXCEPT ![lbl'.c].phase = "registered", ![lbl'.c].spawn = 0]
        /\ UNCHANGED <<nextId, launchQ, removeQ, infrQ, now, halted>> ]_vars
C19_NoHalt == ~halted

C20_OnePending ==
  \A c \in Ids : IF cons[c].qd # NoneS THEN Occ(infrQ, c) = 1 /\ OccAt(infrQ, c, cons[c].qdDue) = 1
                                       ELSE Occ(infrQ, c) = 0 /\ cons[c].qdDue = 0
C20_Apply ==
  [][ /\ \A c \in Ids : cons'[c].infr # cons[c].infr =>
           \/ lbl'.a = "Update" /\ lbl'.ok /\ lbl'.c = c /\ cons[c].phase \in PrePh /\ cons'[c].infr = lbl'.ni
           \/ /\ lbl'.a = "ApplyInfraction" /\ cons[c].qd # NoneS /\ cons'[c].infr = cons[c].qd
              /\ cons[c].qdDue <= now /\ cons'[c].qd = NoneS /\ Occ(infrQ', c) = 0
      \* a pending record is created only for a launched consumer, due one unbonding period later, and differs from the value in force
      /\ \A c \in Ids : (cons'[c].qd # NoneS /\ (cons'[c].qd # cons[c].qd \/ cons'[c].qdDue # cons[c].qdDue)) =>
           /\ lbl'.a = "Update" /\ lbl'.ok /\ lbl'.c = c /\ cons[c].phase = "launched"
           /\ cons'[c].qd = lbl'.ni /\ cons'[c].qdDue = now + U /\ cons'[c].qd # cons'[c].infr
      \* a request equal to the value in force cancels the pending one
      /\ (lbl'.a = "Update" /\ lbl'.ok /\ lbl'.ni # NoneS /\ cons[lbl'.c].phase = "launched" /\ lbl'.ni = cons[lbl'.c].infr
            => cons'[lbl'.c].qd = NoneS)
      /\ (lbl'.a = "ApplyInfraction" => ConsumePost(infrQ, infrQ', now))
    ]_vars
C20_Discard ==
  /\ \A c \in Ids : cons[c].phase = "deleted" => cons[c].qd = NoneS /\ Occ(infrQ, c) = 0

C11_RemoveWhenDue ==
  [][ /\ (lbl'.a = "RemoveDue" =>
            LET tk == Taken(removeQ, now) IN
            /\ ConsumePost(removeQ, removeQ', now)
            /\ \A i \in DOMAIN tk : cons[tk[i]].phase = "stopped" => cons'[tk[i]].phase = "deleted"
            /\ \A c \in Ids : cons'[c].phase # cons[c].phase => \E i \in DOMAIN tk : tk[i] = c
            /\ ((\A c \in Ids : cons'[c].phase = "stopped" => cons'[c].rm > now) \/ Len(tk) = Limit))
      /\ \A c \in Ids : cons[c].phase # "deleted" /\ cons'[c].phase = "deleted" =>
            lbl'.a = "RemoveDue" /\ cons[c].rm # 0 /\ cons[c].rm <= now          \* not before the recorded removal time
    ]_vars
\* supporting: a stopped consumer is scheduled exactly once, at its recorded removal time
C11_QueueExact ==
  \A c \in Ids : IF cons[c].phase = "stopped" THEN Occ(removeQ, c) = 1 /\ OccAt(removeQ, c, cons[c].rm) = 1
                                             ELSE Occ(removeQ, c) = 0 /\ cons[c].rm = 0
=============================================================================
