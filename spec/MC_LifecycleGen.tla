-------------------------- MODULE MC_LifecycleGen --------------------------
(***************************************************************************)
(* Schedule generator for the lifecycle family (C10, C11, C14, C19, C20):  *)
(* the actions of MC_Lifecycle, restricted to behaviours the real provider *)
(* can be driven through, with a history variable written out as one       *)
(* ndjson file per simulated behaviour (tlc -simulate).  harness/mbt.go    *)
(* replays each behaviour: the messages between two Ticks are the          *)
(* transactions of ONE provider block (model time t = real time            *)
(* t0 + t * 3600 s), Tick .. ApplyInfraction is the BeginBlock of the next *)
(* block, and Trace.tla (formulas MBT_Life..) compares the provider's observed       *)
(* records and time queues with the model's after every message and block.*)
(*                                                                         *)
(* Restrictions that make a behaviour realisable:                          *)
(*   - Timeout is left out (it needs a channel and a timed-out packet);    *)
(*   - a launch fails iff nobody opted in: the harness opts a validator in *)
(*     right before the block in which the model says LaunchOK; a Top-N    *)
(*     consumer always has validators, so LaunchFail needs Top_N = 0;      *)
(*   - messages sent by the governance authority are executed the way      *)
(*     x/gov executes them, after the other messages of the block          *)
(*     (`govOnly`): nothing in the provider's EndBlock touches the         *)
(*     modelled state, so "last in the block" and "after the block" agree; *)
(*   - every block carries exactly the number of messages drawn for it     *)
(*     (0..MaxTx), and senders / field values are weighted towards         *)
(*     acceptable messages (a random walk picks uniformly otherwise).      *)
(***************************************************************************)
EXTENDS MC_Lifecycle, Json, TLC, IOUtils

CONSTANTS MaxTx

VARIABLES hist, left, govOnly
gvars == <<vars, hist, left, govOnly>>

Snapshot == [ now |-> now', nextId |-> nextId', cons |-> cons', launchQ |-> launchQ', removeQ |-> removeQ',
              infrQ |-> infrQ', halted |-> halted' ]
Rec == hist' = Append(hist, [lbl |-> lbl', st |-> Snapshot])

\* mostly a, sometimes b (weights for the random walk: most messages should be acceptable)
Pick4(a, b) == IF RandomElement(1..4) = 1 THEN b ELSE a

GInit == Init /\ hist = << >> /\ left \in 0..MaxTx /\ govOnly = FALSE

\* a message of sender s may be sent now
Msg(s) ==
  /\ left > 0 /\ left' = left - 1
  /\ (govOnly => s = Gov)
  /\ govOnly' = (govOnly \/ s = Gov)

GNext ==
  \/ /\ \E s \in Creators, sp \in SpawnChoices \cup {0}, tn \in {Pick4(0, Max(TopNChoices))} : (Msg(s) /\ Create(s, sp, tn))
     /\ Rec
  \* (the optional fields are drawn with RandomElement: a random walk computes every successor of a state before it
  \*  picks one, and the full product of the field choices is some thousand candidates per step)
  \/ /\ \E c \in Ids : \E s \in {cons[c].owner, RandomElement(Senders)} \cap Senders,
           no \in {RandomElement(OwnerUpd \cup {NoneS, NoneS})}, ns \in {RandomElement(SpawnUpd \cup {NoneI})},
           nt \in {Pick4(NoneI, RandomElement(TopNUpd))}, ni \in {RandomElement(InfrUpd \cup {NoneS})} :
             (Msg(s) /\ c < nextId /\ Update(s, c, no, ns, nt, ni))
     /\ Rec
  \/ /\ \E c \in Ids : \E s \in {cons[c].owner, RandomElement(Senders)} \cap Senders :
          (Msg(s) /\ c < nextId /\ (cons[c].phase = "launched" \/ RandomElement(1..4) = 1) /\ Remove(s, c))
     /\ Rec
  \/ /\ (left = 0 \/ govOnly) /\ Tick /\ left' \in 0..MaxTx /\ govOnly' = FALSE /\ Rec
  \/ /\ LaunchOK /\ UNCHANGED <<left, govOnly>> /\ Rec
  \/ /\ LaunchFail /\ cons[Head(todo)].topN = 0 /\ UNCHANGED <<left, govOnly>> /\ Rec
  \/ /\ RemoveDue /\ UNCHANGED <<left, govOnly>> /\ Rec
  \/ /\ ApplyInfraction /\ UNCHANGED <<left, govOnly>> /\ Rec

GSpec == GInit /\ [][GNext]_gvars

\* TLC evaluates invariants on every candidate successor of a random walk, so the behaviour is written out once, when
\* the walk reaches the last tick (run with a -depth that is never the limiting factor)
Dump ==
  (lbl.a = "Tick" /\ now = MaxTime) =>
    ndJsonSerialize(IOEnv.MBT_OUT \o "/sched_" \o ToString(TLCGet("stats").traces) \o ".ndjson", hist)

GenInv == C10_Ids /\ C10_InitIffSpawn /\ C10_QueueExact /\ C14_TopN /\ C19_NoHalt /\ C20_OnePending /\ C20_Discard /\ C11_QueueExact
=============================================================================
