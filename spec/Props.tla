------------------------------- MODULE Props -------------------------------
(***************************************************************************)
(* Pure operators shared by the exhaustive family models (MC_*.tla), the   *)
(* vector enumerations and the trace-validation specification (Trace.tla). *)
(* Every listed property is phrased with these operators, so there is one  *)
(* text of each definition.  Nothing here mentions a variable.             *)
(***************************************************************************)
EXTENDS Integers, Sequences, FiniteSets, FiniteSetsExt, Functions, TLC

Dom(f)      == DOMAIN f
Has(f, k)   == k \in DOMAIN f
SeqToSet(s) == { s[i] : i \in DOMAIN s }
Min2(a, b)  == IF a <= b THEN a ELSE b
Max2(a, b)  == IF a >= b THEN a ELSE b
Last(s)     == s[Len(s)]
EmptyFn     == << >>

SumOver(S, f) == FoldSet(LAMBDA x, acc : acc + f[x], 0, S)
SumFn(f)      == SumOver(DOMAIN f, f)

(* ---- validator-set arithmetic (C01, C15) -------------------------------- *)

\* apply a key |-> power update map to a key |-> power set (power 0 removes)
ApplyUpdates(set, ups) ==
  LET keep == (DOMAIN set \cup { k \in DOMAIN ups : ups[k] > 0 }) \ { k \in DOMAIN ups : ups[k] = 0 }
  IN  [ k \in keep |-> IF k \in DOMAIN ups THEN ups[k] ELSE set[k] ]

\* apply a sequence of <<key, power>> pairs in order (later entries win) -- the packet wire format
ApplySeq(set, s) ==
  LET F[i \in 0..Len(s)] == IF i = 0 THEN set ELSE ApplyUpdates(F[i-1], (s[i][1] :> s[i][2]))
  IN  F[Len(s)]

\* the minimal update map turning `old` into `new`
DiffSets(old, new) ==
  LET ch == { k \in DOMAIN new : k \notin DOMAIN old \/ old[k] # new[k] } \cup (DOMAIN old \ DOMAIN new)
  IN  [ k \in ch |-> IF k \in DOMAIN new THEN new[k] ELSE 0 ]

(* ---- power shaping (C02, C03, C04) -------------------------------------- *)

\* MinPowerTopN: the power of the last validator needed when validators are taken from the top
\* until N percent of the total is reached, ties included (DESIGN C03).  pw : validator |-> power.
HoldsTopN(pw, A, N, m) == 100 * SumOver({ v \in A : pw[v] >= m }, pw) >= N * SumOver(A, pw)
MinPowerTopN(pw, A, N) ==
  LET P == { pw[v] : v \in A }
  IN  CHOOSE m \in P : HoldsTopN(pw, A, N, m) /\ \A m2 \in P : HoldsTopN(pw, A, N, m2) => m2 <= m

\* strict rank used by the validator-set cap: priority-listed first, then by power; ties are left open
Outranks(prio, pw, a, b) ==
  \/ a \in prio /\ b \notin prio
  \/ (a \in prio) = (b \in prio) /\ pw[a] > pw[b]

CapPost(cap, prio, pw, elig, out) ==
  /\ out \subseteq elig
  /\ Cardinality(out) = Min2(cap, Cardinality(elig))
  /\ \A e \in elig \ out, i \in out : ~Outranks(prio, pw, e, i)

\* power cap of p percent: in, out : validator |-> power
PowerCapMax(in, p) == LET S == SumFn(in) IN IF (S * p) \div 100 = 0 THEN 1 ELSE (S * p) \div 100
PowerCapFeasible(in, p) == Cardinality(DOMAIN in) * PowerCapMax(in, p) >= SumFn(in)
PowerCapPost(p, in, out) ==
  LET D    == DOMAIN in
      maxP == PowerCapMax(in, p)
  IN  /\ DOMAIN out = D
      /\ IF PowerCapFeasible(in, p)
           THEN /\ \A v \in D : out[v] <= maxP /\ out[v] >= 1
                /\ SumFn(out) = SumFn(in)
                /\ \A a, b \in D : in[a] > in[b] => out[a] >= out[b]
                /\ \A v \in D : in[v] <= maxP => out[v] >= in[v]
           ELSE \A v \in D : out[v] = maxP

(* ---- lifecycle (C10) ---------------------------------------------------- *)

Phases == { "none", "registered", "initialized", "launched", "stopped", "deleted" }
PhaseEdges ==
  { <<ph, ph>> : ph \in Phases } \cup
  { <<"none", "registered">>, <<"none", "initialized">>,
    <<"registered", "initialized">>, <<"initialized", "registered">>,
    <<"initialized", "launched">>, <<"launched", "stopped">>, <<"stopped", "deleted">> }

(* ---- slash packets (C08, C09, C12, C20) ---------------------------------- *)

\* outcome of a downtime / double-sign slash packet, as a function of what the provider knows
\* r : [ wellFormed, idKnown, doubleSign, launched, inSet, meterNeg, exists, unbonded, tombstoned, jailed ]
SlashOutcome(r) ==
  IF ~r.wellFormed \/ ~r.idKnown THEN [ack |-> "error",   deduct |-> FALSE, sack |-> FALSE, punish |-> FALSE]
  ELSE IF r.doubleSign           THEN [ack |-> "v1",      deduct |-> FALSE, sack |-> FALSE, punish |-> FALSE]
  ELSE IF ~r.launched \/ ~r.inSet THEN [ack |-> "handled", deduct |-> FALSE, sack |-> TRUE,  punish |-> FALSE]
  ELSE IF r.meterNeg             THEN [ack |-> "bounced", deduct |-> FALSE, sack |-> FALSE, punish |-> FALSE]
  ELSE LET live == r.exists /\ ~r.unbonded /\ ~r.tombstoned
       IN  [ack |-> "handled", deduct |-> TRUE, sack |-> live, punish |-> live /\ ~r.jailed]

=============================================================================
