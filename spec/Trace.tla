------------------------------- MODULE Trace -------------------------------
(***************************************************************************)
(* Trace validation: the variables follow the states recorded from the     *)
(* real provider / consumer applications (one ndjson line per event, see   *)
(* DESIGN 2.4/2.5); the listed properties are the C<nn>_* formulas below,   *)
(* evaluated by TLC on those implementation states and steps.              *)
(*                                                                         *)
(*   l   index of the last consumed trace line                             *)
(*   p   last observed provider state                                      *)
(*   cs  consumer chain name |-> last observed state of that chain         *)
(*   g   ghost state maintained from observed events (never guessed)       *)
(***************************************************************************)
EXTENDS Props, Json, IOUtils

Tr == ndJsonDeserialize(IOEnv.TRACE)

VARIABLES l, p, cs, g
vars == <<l, p, cs, g>>

E  == Tr[l]       \* the event that produced the current state
Ev == Tr[l']      \* in action formulas: the event that produces the primed state

IsProv(e) == e.chain = "p"
Same(e)   == Has(e.s, "same")              \* the snapshot equals the previous one of that chain
OkTx(e)   == e.res.code = 0
Txn(e, k) == e.a = "Tx:" \o k

(* ----------------------------------------------------------------------- *)
(* projections of observed records                                          *)
(* ----------------------------------------------------------------------- *)

\* provider-side consumer validator set as key |-> power
KP(cvs) == [ k \in { cvs[v].key : v \in DOMAIN cvs } |->
               cvs[CHOOSE v \in DOMAIN cvs : cvs[v].key = k].pow ]
LP(s)        == [ v \in DOMAIN s.vals |-> s.vals[v].lp ]
ValOfKey(s)  == [ k \in { s.vals[v].pk : v \in DOMAIN s.vals } |-> CHOOSE v \in DOMAIN s.vals : s.vals[v].pk = k ]
ActiveRec(s) == { v \in DOMAIN s.vals : s.vals[v].pk \in DOMAIN s.lps }      \* the recorded consensus set
ActiveIdx(s) == { s.order[i] : i \in 1..Min2(s.M, Len(s.order)) }              \* top-M of the power index
Bonded(s)    == { v \in DOMAIN s.vals : s.vals[v].st = "bonded" }
Cons(s)      == DOMAIN s.cons
Launched(s)  == { c \in Cons(s) : s.cons[c].phase = "launched" }
Members(s, c) == DOMAIN s.cons[c].cvs
PendIds(s, c) == [ i \in DOMAIN s.cons[c].pendingVSC |-> s.cons[c].pendingVSC[i].id ]

RecvMax(c)  == IF c \in DOMAIN g.recvMax THEN g.recvMax[c] ELSE 0
VscIdsOf(e) == [ i \in DOMAIN e.res.recv |-> e.res.recv[i].id ]

(* ----------------------------------------------------------------------- *)
(* the behaviour: follow the log                                            *)
(* ----------------------------------------------------------------------- *)

G0(s) == [ sets |-> << >>, pkt |-> << >>, recvMax |-> << >>, blockVsc |-> s.vscId, lpsPrev |-> s.lps,
           expSent |-> << >>, sent |-> << >> ]


NextG(e, np) ==
  IF e.a = "Init" THEN G0(e.s)
  ELSE IF IsProv(e) THEN
    CASE e.a = "PLaunchOK" ->
           LET c == e.args.c IN
           [g EXCEPT !.sets = (c :> (0 :> KP(np.cons[c].cvs))) @@ g.sets,
                     !.pkt  = (c :> << >>) @@ g.pkt]
      [] e.a = "PQueueVSC" ->
           LET c == e.args.c
               old == IF c \in DOMAIN g.sets THEN g.sets[c] ELSE << >>
               oldp == IF c \in DOMAIN g.pkt THEN g.pkt[c] ELSE << >>
               pend == np.cons[c].pendingVSC
               grew == Len(pend) = Len(p.cons[c].pendingVSC) + 1
           IN [g EXCEPT !.sets = (c :> ((np.vscId :> KP(np.cons[c].cvs)) @@ old)) @@ g.sets,
                        !.pkt  = IF grew THEN (c :> ((Last(pend).id :> Last(pend)) @@ oldp)) @@ g.pkt ELSE g.pkt]
      [] e.a = "PSendVSC" ->
           LET c == e.args.c IN
           IF np.cons[c].pendingVSC = << >> /\ p.cons[c].pendingVSC # << >>
             THEN [g EXCEPT !.expSent = (c :> p.cons[c].pendingVSC) @@ g.expSent]
             ELSE g
      [] e.a = "Block" ->
           [g EXCEPT !.blockVsc = np.vscId, !.lpsPrev = np.lps, !.expSent = << >>]
      [] OTHER -> g
  ELSE
    IF Txn(e, "Recv") /\ OkTx(e) /\ Has(e.res, "recv") /\ \E i \in DOMAIN e.res.recv : e.res.recv[i].type = "vsc"
      THEN [g EXCEPT !.recvMax = (e.chain :> Max({RecvMax(e.chain)} \cup { e.res.recv[i].id : i \in { j \in DOMAIN e.res.recv : e.res.recv[j].type = "vsc" } })) @@ g.recvMax]
      ELSE g

Init ==
  /\ l = 1
  /\ p = Tr[1].s
  /\ cs = << >>
  /\ g = G0(Tr[1].s)

Next ==
  /\ l < Len(Tr)
  /\ l' = l + 1
  /\ LET e == Tr[l + 1] IN
     /\ IF e.a = "Init" THEN p' = e.s /\ cs' = << >>
        ELSE IF IsProv(e) THEN p' = (IF Same(e) THEN p ELSE e.s) /\ cs' = cs
        ELSE p' = p /\ cs' = (IF Same(e) THEN cs ELSE (e.chain :> e.s) @@ cs)
     /\ g' = NextG(e, IF IsProv(e) /\ ~Same(e) THEN e.s ELSE p)

Spec == Init /\ [][Next]_vars

TraceAccepted == TLCGet("stats").diameter = Len(Tr)

\* a step inside one trace on the provider / on a consumer chain
PStep == Ev.a # "Init" /\ IsProv(Ev)
CStep == Ev.a # "Init" /\ ~IsProv(Ev) /\ Ev.chain \in DOMAIN cs'

(* ======================================================================= *)
(* C01  consumer validator sets replicate the provider's decisions          *)
(* ======================================================================= *)

\* at the end of every consumer block the set in force (module store and consensus engine) is the
\* provider-computed set for the most recent VSC id received, or the launch set
C01_Inv ==
  (E.a = "Block" /\ ~IsProv(E)) =>
    LET c == E.chain  st == cs[c] IN
    /\ c \in DOMAIN g.sets
    /\ RecvMax(c) \in DOMAIN g.sets[c]
    /\ st.ccv = g.sets[c][RecvMax(c)]
    /\ E.args.engine = st.ccv

\* packets are received in strictly increasing id order and are exactly what the provider queued
C01_Order == [][
  (CStep /\ Txn(Ev, "Recv") /\ OkTx(Ev) /\ Has(Ev.res, "recv")) =>
    LET c == Ev.chain  r == Ev.res.recv IN
    \A i \in DOMAIN r : r[i].type = "vsc" =>
      /\ r[i].id > RecvMax(c)
      /\ \A j \in DOMAIN r : (j < i /\ r[j].type = "vsc") => r[j].id < r[i].id
      /\ c \in DOMAIN g.pkt /\ r[i].id \in DOMAIN g.pkt[c]
      /\ r[i].seq = g.pkt[c][r[i].id].seq /\ r[i].acks = g.pkt[c][r[i].id].acks
  ]_vars

\* provider side: a queued packet is the difference between the previous and the new stored set
C01_Diff == [][
  (PStep /\ Ev.a = "PQueueVSC") =>
    LET c == Ev.args.c
        old == KP(p.cons[c].cvs)   new == KP(p'.cons[c].cvs)
        pend == p.cons[c].pendingVSC   pend2 == p'.cons[c].pendingVSC IN
    /\ Len(pend2) \in { Len(pend), Len(pend) + 1 }
    /\ SubSeq(pend2, 1, Len(pend)) = pend
    /\ (old # new) => Len(pend2) = Len(pend) + 1
    /\ (Len(pend2) = Len(pend) + 1) =>
         /\ Last(pend2).id = p'.vscId
         /\ ApplySeq(old, Last(pend2).seq) = new
  ]_vars

\* the whole queue leaves in order when it is flushed, and exactly then
C01_Send == [][
  (PStep /\ Ev.a = "Block") =>
    \A c \in DOMAIN g.expSent :
      LET ch == p'.cons[c].chan
          out == SelectSeq(Ev.res.sent, LAMBDA x : x.type = "vsc" /\ x.chan = ch) IN
      (ch # "") => [ i \in DOMAIN out |-> out[i].id ] = [ i \in DOMAIN g.expSent[c] |-> g.expSent[c][i].id ]
  ]_vars

\* the launch genesis carries the set the provider stored
C01_Launch == [][
  (PStep /\ Ev.a = "PLaunchOK") =>
    LET r == p'.cons[Ev.args.c] IN
    /\ r.genesis.present
    /\ r.genesis.v.set = KP(r.cvs)
    /\ r.phase = "launched"
  ]_vars

(* ======================================================================= *)
(* C02  only eligible bonded provider validators, at provider power         *)
(* ======================================================================= *)

MinPowOf(r) == IF r.minPow.present THEN r.minPow.v ELSE 0

Elig(s, c, act) ==
  LET r == s.cons[c]  m == MinPowOf(r) IN
  { v \in DOMAIN s.vals :
      LET x == s.vals[v] IN
      /\ x.st = "bonded" /\ ~x.jailed
      /\ (v \in SeqToSet(r.optedIn) \/ (r.topN > 0 /\ v \in act /\ x.lp >= m))
      /\ (r.allowL = << >> \/ v \in SeqToSet(r.allowL))
      /\ v \notin SeqToSet(r.denyL)
      /\ x.tok >= r.minStake
      /\ (r.allowInactive \/ v \in act) }

ComputesSet(e) == e.a \in { "PQueueVSC", "PLaunchOK" }

\* at an epoch the recorded consensus set is the active set; at a launch (BeginBlock) a validator jailed
\* earlier in the same BeginBlock has left the power index while still recorded: either reading is accepted
ActChoices(e, s) == IF e.a = "PLaunchOK" THEN { ActiveRec(s), ActiveIdx(s) } ELSE { ActiveRec(s) }

C02_Sound == [][
  (PStep /\ ComputesSet(Ev)) =>
    LET c == Ev.args.c IN
    \E act \in ActChoices(Ev, p') : Members(p', c) \subseteq Elig(p', c, act)
  ]_vars

C02_Complete == [][
  (PStep /\ ComputesSet(Ev)) =>
    LET c == Ev.args.c  r == p'.cons[c] IN
    (r.valCap = 0 \/ r.topN > 0) =>
      \E act \in ActChoices(Ev, p') : Elig(p', c, act) \subseteq Members(p', c)
  ]_vars

C02_Power == [][
  (PStep /\ ComputesSet(Ev)) =>
    LET c == Ev.args.c  r == p'.cons[c] IN
    (r.powCap = 0) => \A v \in DOMAIN r.cvs : v \in DOMAIN p'.vals /\ r.cvs[v].pow = p'.vals[v].lp
  ]_vars

C02_Key == [][
  (PStep /\ ComputesSet(Ev)) =>
    LET c == Ev.args.c  r == p'.cons[c] IN
    \A v \in DOMAIN r.cvs :
      /\ v \in DOMAIN p'.vals
      /\ r.cvs[v].key = (IF v \in DOMAIN r.valKey THEN r.valKey[v] ELSE p'.vals[v].pk)
  ]_vars

(* ======================================================================= *)
(* C03  Top-N                                                               *)
(* ======================================================================= *)

TopNThreshold(s, act, N) == MinPowerTopN(LP(s), act, N)

C03_Threshold == [][
  (PStep /\ ComputesSet(Ev)) =>
    LET c == Ev.args.c  r == p'.cons[c] IN
    (r.topN > 0) =>
      /\ r.minPow.present
      /\ \E act \in ActChoices(Ev, p') : act # {} /\ r.minPow.v = TopNThreshold(p', act, r.topN)
  ]_vars

\* a successful owner update that changes Top-N recomputes (or deletes) the stored threshold
C03_UpdateThreshold == [][
  (PStep /\ Txn(Ev, "UpdateConsumer") /\ OkTx(Ev) /\ Has(Ev.args, "shaping")) =>
    LET c == Ev.args.c  r0 == p.cons[c]  r == p'.cons[c] IN
    (r.topN # r0.topN) =>
      IF r.topN = 0 THEN ~r.minPow.present
      ELSE /\ r.minPow.present
           /\ \E act \in { ActiveRec(p'), ActiveIdx(p') } : act # {} /\ r.minPow.v = TopNThreshold(p', act, r.topN)
  ]_vars

C03_AutoOptIn == [][
  (PStep /\ ComputesSet(Ev)) =>
    LET c == Ev.args.c  r == p'.cons[c] IN
    (r.topN > 0 /\ r.minPow.present) =>
      \E act \in ActChoices(Ev, p') :
        \A v \in act : p'.vals[v].lp >= r.minPow.v =>
          /\ v \in SeqToSet(r.optedIn)
          /\ ( /\ p'.vals[v].st = "bonded" /\ ~p'.vals[v].jailed
               /\ (r.allowL = << >> \/ v \in SeqToSet(r.allowL)) /\ v \notin SeqToSet(r.denyL)
               /\ p'.vals[v].tok >= r.minStake )
             => v \in DOMAIN r.cvs
  ]_vars

\* opt-out attempts (signed by the validator's own operator)
C03_OptOut == [][
  (PStep /\ Txn(Ev, "OptOut") /\ ~Has(Ev.args, "signer") /\ Ev.args.c \in Cons(p) /\ Ev.args.v \in DOMAIN p.vals) =>
    LET c == Ev.args.c  v == Ev.args.v  r == p.cons[c]
        free == r.topN = 0 \/ (r.minPow.present /\ p.vals[v].lp < r.minPow.v) IN
    /\ OkTx(Ev) => (r.phase = "launched" /\ free /\ v \notin SeqToSet(p'.cons[c].optedIn))
    /\ (r.phase = "launched" /\ free) => OkTx(Ev)
    /\ ~OkTx(Ev) => p'.dig.all = p.dig.all
  ]_vars

\* records appear only by the validator's own opt-in or the Top-N rule,
\* and disappear only by its own opt-out or the consumer's deletion
C03_OptInRecords == [][
  PStep =>
    \A c \in Cons(p) \cap Cons(p') :
      LET o0 == SeqToSet(p.cons[c].optedIn)  o1 == SeqToSet(p'.cons[c].optedIn)  r == p'.cons[c] IN
      /\ (o1 \ o0 # {}) =>
           \/ Txn(Ev, "OptIn") /\ OkTx(Ev) /\ Ev.args.c = c /\ o1 \ o0 = { Ev.args.v }
           \/ ComputesSet(Ev) /\ Ev.args.c = c /\ r.topN > 0
                /\ \A v \in o1 \ o0 : r.minPow.present /\ p'.vals[v].lp >= r.minPow.v
      /\ (o0 \ o1 # {}) =>
           \/ Txn(Ev, "OptOut") /\ OkTx(Ev) /\ Ev.args.c = c /\ o0 \ o1 = { Ev.args.v }
           \/ Ev.a = "PRemoveOK" /\ Ev.args.c = c
      \* members below the threshold are there only because they opted in
      /\ (ComputesSet(Ev) /\ Ev.args.c = c /\ r.topN > 0 /\ r.minPow.present) =>
           \A v \in DOMAIN r.cvs : (v \in DOMAIN p'.vals /\ p'.vals[v].lp < r.minPow.v) => v \in o1
  ]_vars

(* ======================================================================= *)
(* C04  validator-set cap, priority list, power cap                         *)
(* ======================================================================= *)

C04_Cap == [][
  (PStep /\ ComputesSet(Ev)) =>
    LET c == Ev.args.c  r == p'.cons[c] IN
    (r.topN = 0 /\ r.valCap > 0) =>
      \E act \in ActChoices(Ev, p') :
        CapPost(r.valCap, SeqToSet(r.prioL), LP(p'), Elig(p', c, act), DOMAIN r.cvs)
  ]_vars

C04_PowerCap == [][
  (PStep /\ ComputesSet(Ev)) =>
    LET c == Ev.args.c  r == p'.cons[c]
        in  == [ v \in DOMAIN r.cvs |-> p'.vals[v].lp ]
        out == [ v \in DOMAIN r.cvs |-> r.cvs[v].pow ] IN
    (r.powCap > 0 /\ DOMAIN r.cvs # {}) => PowerCapPost(r.powCap, in, out)
  ]_vars

(* ======================================================================= *)
(* C12  validator-set update ids and heights                                *)
(* ======================================================================= *)

\* the id moves only at the end of the queueing step, by one
C12_IdStep == [][
  PStep =>
    /\ p'.vscId \in { p.vscId, p.vscId + 1 }
    /\ (p'.vscId # p.vscId) => Ev.a = "PEndQueueVSC"
  ]_vars

\* exactly one increment per epoch-boundary block, none in other blocks
C12_IdPerEpoch == [][
  (PStep /\ Ev.a = "Block") =>
    p'.vscId = g.blockVsc + (IF p'.h % p'.bpe = 0 THEN 1 ELSE 0)
  ]_vars

\* ids queued for a consumer strictly increase and never exceed the current id
C12_PacketIds ==
  (IsProv(E) /\ E.a # "Init") =>
    \A c \in Cons(p) :
      LET ids == PendIds(p, c) IN
      /\ \A i, j \in DOMAIN ids : i < j => ids[i] < ids[j]
      /\ \A i \in DOMAIN ids : ids[i] <= p.vscId

\* every completed id maps to the height right after the block that produced it, and never moves again
C12_IdHeight == [][
  PStep =>
    /\ (Ev.a = "PEndQueueVSC") =>
         /\ Has(p'.v2h, ToString(p.vscId))
         /\ p'.v2h[ToString(p.vscId)] = p'.h + 1
    /\ (Ev.a = "PEndCIS") =>
         /\ Has(p'.v2h, ToString(p'.vscId)) /\ p'.v2h[ToString(p'.vscId)] = p'.h + 1
    /\ \A k \in DOMAIN p.v2h \cap DOMAIN p'.v2h :
         (k # ToString(p.vscId)) => p'.v2h[k] = p.v2h[k]
  ]_vars

\* consumer: the height after each block maps to the id of the latest update received so far; history is stable
C12_ConsumerMap ==
  (E.a = "Block" /\ ~IsProv(E)) =>
    LET st == cs[E.chain] IN
    /\ Has(st.h2id, ToString(st.h + 1))
    /\ st.h2id[ToString(st.h + 1)] = RecvMax(E.chain)

C12_ConsumerMapStable == [][
  (CStep /\ Ev.chain \in DOMAIN cs) =>
    LET a == cs[Ev.chain].h2id  b == cs'[Ev.chain].h2id  hh == cs'[Ev.chain].h IN
    \A k \in DOMAIN a \cap DOMAIN b : (k # ToString(hh + 1)) => a[k] = b[k]
  ]_vars

(* ======================================================================= *)
(* C15  the provider's own consensus set                                    *)
(* ======================================================================= *)

C15_TopM == [][
  (PStep /\ Ev.a = "PEndProvVals") =>
    LET s == p'  mem == ActiveRec(s)  b == Bonded(s) IN
    /\ \A k \in DOMAIN s.lps : \E v \in DOMAIN s.vals : s.vals[v].pk = k
    /\ Cardinality(DOMAIN s.lps) = Min2(s.M, Cardinality(b))
    /\ mem \subseteq b
    /\ \A e \in b \ mem, m \in mem : s.vals[e].lp <= s.vals[m].lp
    /\ \A v \in mem : s.lps[s.vals[v].pk] = s.vals[v].lp
  ]_vars

\* the updates handed to the engine are exactly the difference to the previously recorded set
C15_Diff == [][
  (PStep /\ Ev.a = "Block") =>
    /\ Ev.args.updates = DiffSets(g.lpsPrev, p'.lps)
    /\ Ev.args.engine = p'.lps
    /\ Cardinality(DOMAIN Ev.args.engine) <= p'.M
  ]_vars

\* the recorded set changes only in the provider's own end-block step
C15_OnlyThere == [][
  PStep => ((p'.lps # p.lps) => Ev.a = "PEndProvVals")
  ]_vars

=============================================================================
