------------------------------- MODULE Trace -------------------------------
(***************************************************************************)
(* Trace validation: the variables follow the states recorded from the     *)
(* real provider / consumer applications (one ndjson line per event, see   *)
(* DESIGN 2.4/2.5); the listed properties are the C<nn>_* formulas below,   *)
(* evaluated by TLC on those implementation states and steps.              *)
(*                                                                         *)
(*   l   index of the last consumed trace line                             *)
(*   p   last observed provider state                                      *)
(*   cs  consumer chain name |-> last observed state of that chain         *)
(*   g   ghost state maintained from observed events (never guessed)       *)
(***************************************************************************)
EXTENDS Props, Json, IOUtils

Tr == ndJsonDeserialize(IOEnv.TRACE)

VARIABLES l, p, cs, g
vars == <<l, p, cs, g>>

E  == Tr[l]       \* the event that produced the current state
Ev == Tr[l']      \* in action formulas: the event that produces the primed state

IsProv(e) == e.chain = "p"
Same(e)   == Has(e.s, "same")              \* the snapshot equals the previous one of that chain
OkTx(e)   == e.res.code = 0
Txn(e, k) == e.a = "Tx:" \o k

(* ----------------------------------------------------------------------- *)
(* projections of observed records                                          *)
(* ----------------------------------------------------------------------- *)

\* provider-side consumer validator set as key |-> power
KP(cvs) == [ k \in { cvs[v].key : v \in DOMAIN cvs } |->
               cvs[CHOOSE v \in DOMAIN cvs : cvs[v].key = k].pow ]
LP(s)        == [ v \in DOMAIN s.vals |-> s.vals[v].lp ]
ValOfKey(s)  == [ k \in { s.vals[v].pk : v \in DOMAIN s.vals } |-> CHOOSE v \in DOMAIN s.vals : s.vals[v].pk = k ]
ActiveRec(s) == { v \in DOMAIN s.vals : s.vals[v].pk \in DOMAIN s.lps }      \* the recorded consensus set
ActiveIdx(s) == { s.order[i] : i \in 1..Min2(s.M, Len(s.order)) }              \* top-M of the power index
Bonded(s)    == { v \in DOMAIN s.vals : s.vals[v].st = "bonded" }
Cons(s)      == DOMAIN s.cons
Launched(s)  == { c \in Cons(s) : s.cons[c].phase = "launched" }
Members(s, c) == DOMAIN s.cons[c].cvs
PendIds(s, c) == [ i \in DOMAIN s.cons[c].pendingVSC |-> s.cons[c].pendingVSC[i].id ]

RecvMax(c)  == IF c \in DOMAIN g.recvMax THEN g.recvMax[c] ELSE 0
VscIdsOf(e) == [ i \in DOMAIN e.res.recv |-> e.res.recv[i].id ]

(* ----------------------------------------------------------------------- *)
(* the behaviour: follow the log                                            *)
(* ----------------------------------------------------------------------- *)

Get(f, k) == IF k \in DOMAIN f THEN f[k] ELSE 0
\* times and durations beyond this many seconds are reported as this value ("forever"; TLC integers are 32-bit)
TimeClamp == 2100000000
ClampT(x) == IF x > TimeClamp THEN TimeClamp ELSE x
\* C16: what the consumer's reward step has to do with the fees collected in this block
ConsShare(st, d)  == (Get(st.bal.fee, d) * st.fracBp) \div 10000
TransmitDue(st, h) == h - st.lastTx >= st.bpdt
Sendable(st, h, d) == TransmitDue(st, h) /\ st.xferState = "STATE_OPEN" /\ d \in SeqToSet(st.allowedDenoms)
ExpectedTransfers(pre, post) ==
  LET ds == DOMAIN pre.bal.fee \cup DOMAIN pre.bal.toSend IN
  [ d \in { x \in ds : Sendable(pre, post.h, x) /\ Get(pre.bal.toSend, x) + Get(pre.bal.fee, x) - ConsShare(pre, x) > 0 } |->
      Get(pre.bal.toSend, d) + Get(pre.bal.fee, d) - ConsShare(pre, d) ]

G0(s) == [ sets |-> << >>, pkt |-> << >>, recvMax |-> << >>, blockVsc |-> s.vscId, lpsPrev |-> s.lps,
           expSent |-> << >>, sent |-> << >>,
           replaced |-> {},                 \* C06: [c, k, v, until] for keys replaced on a launched consumer
           dueSeq |-> << >>, nLaunch |-> 0, \* C10: consumers due in this block, in queue order, and how many were processed
           remSeq |-> << >>, nRemove |-> 0,
           firstStop |-> << >>,             \* C11: consumer |-> earliest allowed deletion time (first stop + U)
           meter0 |-> s.meter, replSum |-> 0, jailSum |-> 0, maxJ |-> 0, lastRepl |-> -1000000,   \* C09
           blockSent |-> << >>,             \* C09: consumer chain |-> packet sending was permitted at its last end-block
           removeFailed |-> {},
           forged |-> {},
           failedLaunch |-> << >>,          \* C19: consumer |-> its record right after its launch failed in the current block
           stoppedAtStart |-> {},
           launchLog |-> << >>,             \* MBT: launch outcomes of the current provider block, in order
           expXfer |-> << >> ]              \* C16: consumer chain |-> denom |-> amount its end-block must hand to the transfer module          \* C11: channels of consumers that were already stopped when the current provider block began                  \* consumer chains that behaved maliciously (their own invariants are not claimed)

\* flattened ids of the time-queue entries that are due at time `now`
FlattenDue(q, now) ==
  LET F[i \in 0..Len(q)] == IF i = 0 THEN << >> ELSE IF q[i].t <= now THEN F[i-1] \o q[i].ids ELSE F[i-1]
  IN  F[Len(q)]
QueuedIds(q) == UNION { SeqToSet(q[i].ids) : i \in DOMAIN q }
Take(s, n) == SubSeq(s, 1, Min2(n, Len(s)))
FlattenAll(q) ==
  LET F[i \in 0..Len(q)] == IF i = 0 THEN << >> ELSE F[i-1] \o q[i].ids
  IN  F[Len(q)]
\* a time queue q (ordered by time) becomes q2 by handing out the due entries in order, at most 200 of them;
\* whatever is left keeps its order (and its time: see the *_QueueExact / *_OnePending invariants)
ConsumedUpTo200(q, q2, now) ==
  LET all == FlattenAll(q)  n == Min2(200, Len(FlattenDue(q, now)))
  IN  /\ \A i \in 1..(Len(q) - 1) : q[i].t < q[i+1].t
      /\ FlattenAll(q2) = SubSeq(all, n + 1, Len(all))


NextG(e, np) ==
  IF e.a = "Init" THEN G0(e.s)
  ELSE IF IsProv(e) THEN
    CASE e.a = "PLaunchOK" ->
           LET c == e.args.c IN
           [g EXCEPT !.sets = (c :> (0 :> KP(np.cons[c].cvs))) @@ g.sets,
                     !.pkt  = (c :> << >>) @@ g.pkt,
                     !.nLaunch = g.nLaunch + 1,
                     !.launchLog = Append(g.launchLog, [a |-> e.a, c |-> c])]
      [] e.a = "PQueueVSC" ->
           LET c == e.args.c
               old == IF c \in DOMAIN g.sets THEN g.sets[c] ELSE << >>
               oldp == IF c \in DOMAIN g.pkt THEN g.pkt[c] ELSE << >>
               pend == np.cons[c].pendingVSC
               grew == Len(pend) = Len(p.cons[c].pendingVSC) + 1
           IN [g EXCEPT !.sets = (c :> ((np.vscId :> KP(np.cons[c].cvs)) @@ old)) @@ g.sets,
                        !.pkt  = IF grew THEN (c :> ((Last(pend).id :> Last(pend)) @@ oldp)) @@ g.pkt ELSE g.pkt]
      [] e.a = "PSendVSC" ->
           LET c == e.args.c IN
           IF np.cons[c].pendingVSC = << >> /\ p.cons[c].pendingVSC # << >>
             THEN [g EXCEPT !.expSent = (c :> p.cons[c].pendingVSC) @@ g.expSent]
             ELSE g
      [] e.a = "Block" ->
           [g EXCEPT !.stoppedAtStart = { np.cons[c].chan : c \in { c2 \in DOMAIN np.cons : np.cons[c2].phase \in {"stopped", "deleted"} /\ np.cons[c2].chan # "" } },
                     !.blockVsc = np.vscId, !.lpsPrev = np.lps, !.expSent = << >>,
                     !.dueSeq = << >>, !.nLaunch = 0, !.remSeq = << >>, !.nRemove = 0, !.failedLaunch = << >>]
      [] e.a = "PLaunchDue" -> [g EXCEPT !.dueSeq = Take(FlattenDue(p.launchQ, np.t), 200), !.nLaunch = 0, !.launchLog = << >>]
      [] e.a \in {"PLaunchFail"} -> [g EXCEPT !.nLaunch = g.nLaunch + 1, !.failedLaunch = (e.args.c :> np.cons[e.args.c]) @@ g.failedLaunch,
                                              !.launchLog = Append(g.launchLog, [a |-> e.a, c |-> e.args.c])]
      [] e.a = "PRemoveDue" -> [g EXCEPT !.remSeq = Take(FlattenDue(p.removeQ, np.t), 200), !.nRemove = 0]
      [] e.a = "PRemoveOK" -> [g EXCEPT !.nRemove = g.nRemove + 1]
      [] e.a = "PBeginCIS" ->
           IF np.meter > p.meter
             THEN [g EXCEPT !.replSum = g.replSum + (np.meter - p.meter), !.lastRepl = np.t]
             ELSE g
      [] e.a = "PRemoveFail" -> [g EXCEPT !.nRemove = g.nRemove + 1, !.removeFailed = g.removeFailed \cup {e.args.c}]
      [] e.a = "PEndCIS" ->
           [g EXCEPT !.replaced = { r \in g.replaced : r.until > np.t /\ r.c \in DOMAIN np.cons /\ np.cons[r.c].phase # "deleted" }]
      [] (Txn(e, "AssignKey") \/ Txn(e, "OptIn")) /\ OkTx(e) /\ Has(e.args, "key") ->
           LET c == e.args.c  v == e.args.v IN
           IF c \in DOMAIN p.cons /\ p.cons[c].phase = "launched" /\ v \in DOMAIN p.cons[c].valKey
             THEN [g EXCEPT !.replaced = g.replaced \cup { [c |-> c, k |-> p.cons[c].valKey[v], v |-> v, until |-> np.t + np.U] }]
             ELSE g
      [] OTHER -> g
  ELSE IF e.a = "Forge" THEN [g EXCEPT !.forged = g.forged \cup {e.chain}]
  ELSE IF e.a = "CEndRD" /\ e.chain \in DOMAIN cs THEN
    [g EXCEPT !.expXfer = (e.chain :> ExpectedTransfers(cs[e.chain], IF Same(e) THEN cs[e.chain] ELSE e.s)) @@ g.expXfer]
  ELSE IF e.a = "Block" /\ ~IsProv(e) THEN [g EXCEPT !.expXfer = (e.chain :> << >>) @@ g.expXfer]
  ELSE
    IF Txn(e, "Recv") /\ OkTx(e) /\ Has(e.res, "recv") /\ \E i \in DOMAIN e.res.recv : e.res.recv[i].type = "vsc"
      THEN [g EXCEPT !.recvMax = (e.chain :> Max({RecvMax(e.chain)} \cup { e.res.recv[i].id : i \in { j \in DOMAIN e.res.recv : e.res.recv[j].type = "vsc" } })) @@ g.recvMax]
      ELSE g

\* ghost updates that depend only on the observed state change (stops, consumer-initiated jailing)
NextG2(e, np, g1) ==
  IF e.a = "Init" \/ ~IsProv(e) THEN g1
  ELSE
    LET newStops == { c \in DOMAIN np.cons : c \in DOMAIN p.cons /\ p.cons[c].phase = "launched" /\ np.cons[c].phase = "stopped" }
        fs == [ c \in DOMAIN g1.firstStop \cup newStops |->
                  IF c \in DOMAIN g1.firstStop THEN g1.firstStop[c] ELSE np.t + np.U ]
        jailedNow == IF Txn(e, "Recv") /\ OkTx(e)
                       THEN { v \in DOMAIN np.vals : v \in DOMAIN p.vals /\ np.vals[v].jailed /\ ~p.vals[v].jailed }
                       ELSE {}
        js == SumOver(jailedNow, [ v \in DOMAIN p.vals |-> p.vals[v].lp ])
    IN [g1 EXCEPT !.firstStop = fs, !.jailSum = g1.jailSum + js,
                  !.maxJ = IF js > g1.maxJ THEN js ELSE g1.maxJ]

\* the provider state after event e: unchanged, a full snapshot, or the previous state with the changed top-level
\* fields (e.s.d) and the changed consumer records (e.s.dc) replaced
Without(f, S) == [ x \in DOMAIN f \ S |-> f[x] ]
DigState(e) ==
  [ j \in DOMAIN p.dig |->
      IF j \in {"cons", "prefixes"} THEN e.s.dg[j] @@ Without(p.dig[j], SeqToSet(e.s.dgr[j]))
      ELSE IF j \in DOMAIN e.s.dg THEN e.s.dg[j] ELSE p.dig[j] ]
ProvState(e) ==
  IF Same(e) THEN p
  ELSE IF Has(e.s, "dc")
    THEN [ k \in DOMAIN p |-> IF k = "cons" THEN e.s.dc @@ p.cons
                              ELSE IF k = "dig" /\ Has(e.s, "dg") THEN DigState(e)
                              ELSE IF k \in DOMAIN e.s.d THEN e.s.d[k] ELSE p[k] ]
    ELSE e.s

Init ==
  /\ l = 1
  /\ p = Tr[1].s
  /\ cs = << >>
  /\ g = G0(Tr[1].s)

Next ==
  /\ l < Len(Tr)
  /\ l' = l + 1
  /\ LET e == Tr[l + 1] IN
     /\ IF e.a = "Init" THEN p' = e.s /\ cs' = << >>
        ELSE IF IsProv(e) THEN p' = ProvState(e) /\ cs' = cs
        ELSE p' = p /\ cs' = (IF Same(e) THEN cs ELSE (e.chain :> e.s) @@ cs)
     /\ LET np == IF IsProv(e) THEN ProvState(e) ELSE p IN g' = NextG2(e, np, NextG(e, np))

Spec == Init /\ [][Next]_vars

\* self-test of the delta encoding (traces written with VERIF_DELTACHECK=1 carry the full snapshot as well)
X_DeltaFaithful == (IsProv(E) /\ Has(E.s, "full")) => p = E.s.full

TraceAccepted == TLCGet("stats").diameter = Len(Tr)

\* a step inside one trace on the provider / on a consumer chain
PStep == Ev.a # "Init" /\ IsProv(Ev)
CStep == Ev.a # "Init" /\ ~IsProv(Ev) /\ Ev.chain \in DOMAIN cs'

(* ======================================================================= *)
(* C01  consumer validator sets replicate the provider's decisions          *)
(* ======================================================================= *)

\* at the end of every consumer block the set in force (module store and consensus engine) is the
\* provider-computed set for the most recent VSC id received, or the launch set
C01_Inv ==
  (E.a = "Block" /\ ~IsProv(E)) =>
    LET c == E.chain  st == cs[c] IN
    /\ c \in DOMAIN g.sets
    /\ RecvMax(c) \in DOMAIN g.sets[c]
    /\ st.ccv = g.sets[c][RecvMax(c)]
    /\ E.args.engine = st.ccv

\* packets are received in strictly increasing id order and are exactly what the provider queued
C01_Order == [][
  (CStep /\ Txn(Ev, "Recv") /\ OkTx(Ev) /\ Has(Ev.res, "recv")) =>
    LET c == Ev.chain  r == Ev.res.recv IN
    \A i \in DOMAIN r : r[i].type = "vsc" =>
      /\ r[i].id > RecvMax(c)
      /\ \A j \in DOMAIN r : (j < i /\ r[j].type = "vsc") => r[j].id < r[i].id
      /\ c \in DOMAIN g.pkt /\ r[i].id \in DOMAIN g.pkt[c]
      /\ r[i].seq = g.pkt[c][r[i].id].seq /\ r[i].acks = g.pkt[c][r[i].id].acks
  ]_vars

\* provider side: a queued packet is the difference between the previous and the new stored set
C01_Diff == [][
  (PStep /\ Ev.a = "PQueueVSC") =>
    LET c == Ev.args.c
        old == KP(p.cons[c].cvs)   new == KP(p'.cons[c].cvs)
        pend == p.cons[c].pendingVSC   pend2 == p'.cons[c].pendingVSC IN
    /\ Len(pend2) \in { Len(pend), Len(pend) + 1 }
    /\ SubSeq(pend2, 1, Len(pend)) = pend
    /\ (old # new) => Len(pend2) = Len(pend) + 1
    /\ (Len(pend2) = Len(pend) + 1) =>
         /\ Last(pend2).id = p'.vscId
         /\ ApplySeq(old, Last(pend2).seq) = new
  ]_vars

\* the whole queue leaves in order when it is flushed, and exactly then
C01_Send == [][
  (PStep /\ Ev.a = "Block") =>
    \A c \in DOMAIN g.expSent :
      LET ch == p'.cons[c].chan
          out == SelectSeq(Ev.res.sent, LAMBDA x : x.type = "vsc" /\ x.chan = ch) IN
      (ch # "") => [ i \in DOMAIN out |-> out[i].id ] = [ i \in DOMAIN g.expSent[c] |-> g.expSent[c][i].id ]
  ]_vars

\* the launch genesis carries the set the provider stored
C01_Launch == [][
  (PStep /\ Ev.a = "PLaunchOK") =>
    LET r == p'.cons[Ev.args.c] IN
    /\ r.genesis.present
    /\ r.genesis.v.set = KP(r.cvs)
    /\ r.phase = "launched"
  ]_vars

(* ======================================================================= *)
(* C02  only eligible bonded provider validators, at provider power         *)
(* ======================================================================= *)

MinPowOf(r) == IF r.minPow.present THEN r.minPow.v ELSE 0

Elig(s, c, act) ==
  LET r == s.cons[c]  m == MinPowOf(r) IN
  { v \in DOMAIN s.vals :
      LET x == s.vals[v] IN
      /\ x.st = "bonded" /\ ~x.jailed
      /\ (v \in SeqToSet(r.optedIn) \/ (r.topN > 0 /\ v \in act /\ x.lp >= m))
      /\ (r.allowL = << >> \/ v \in SeqToSet(r.allowL))
      /\ v \notin SeqToSet(r.denyL)
      /\ x.tok >= r.minStake
      /\ (r.allowInactive \/ v \in act) }

ComputesSet(e) == e.a \in { "PQueueVSC", "PLaunchOK" }

\* at an epoch the recorded consensus set is the active set; at a launch (BeginBlock) a validator jailed
\* earlier in the same BeginBlock has left the power index while still recorded: either reading is accepted
ActChoices(e, s) == IF e.a = "PLaunchOK" THEN { ActiveRec(s), ActiveIdx(s) } ELSE { ActiveRec(s) }

C02_Sound == [][
  (PStep /\ ComputesSet(Ev)) =>
    LET c == Ev.args.c IN
    \E act \in ActChoices(Ev, p') : Members(p', c) \subseteq Elig(p', c, act)
  ]_vars

C02_Complete == [][
  (PStep /\ ComputesSet(Ev)) =>
    LET c == Ev.args.c  r == p'.cons[c] IN
    (r.valCap = 0 \/ r.topN > 0) =>
      \E act \in ActChoices(Ev, p') : Elig(p', c, act) \subseteq Members(p', c)
  ]_vars

C02_Power == [][
  (PStep /\ ComputesSet(Ev)) =>
    LET c == Ev.args.c  r == p'.cons[c] IN
    (r.powCap = 0) => \A v \in DOMAIN r.cvs : v \in DOMAIN p'.vals /\ r.cvs[v].pow = p'.vals[v].lp
  ]_vars

C02_Key == [][
  (PStep /\ ComputesSet(Ev)) =>
    LET c == Ev.args.c  r == p'.cons[c] IN
    \A v \in DOMAIN r.cvs :
      /\ v \in DOMAIN p'.vals
      /\ r.cvs[v].key = (IF v \in DOMAIN r.valKey THEN r.valKey[v] ELSE p'.vals[v].pk)
  ]_vars

\* the lists that decide eligibility are the ones the owner asked for: a message that carries power-shaping parameters
\* installs exactly its allow / deny / priority lists (absent = empty), whatever was there before
C02_ListsInstalled == [][
  (PStep /\ (Txn(Ev, "UpdateConsumer") \/ Txn(Ev, "CreateConsumer")) /\ OkTx(Ev) /\ Has(Ev.args, "shaping")) =>
    LET c == IF Txn(Ev, "CreateConsumer") THEN Ev.res.newId ELSE Ev.args.c
        sh == Ev.args.shaping
        Want(f) == IF Has(sh, f) THEN SeqToSet(sh[f]) ELSE {}
    IN \A f \in {"allowL", "denyL", "prioL"} : SeqToSet(p'.cons[c][f]) = Want(f)
  ]_vars

(* ======================================================================= *)
(* C03  Top-N                                                               *)
(* ======================================================================= *)

TopNThreshold(s, act, N) == MinPowerTopN(LP(s), act, N)

C03_Threshold == [][
  (PStep /\ ComputesSet(Ev)) =>
    LET c == Ev.args.c  r == p'.cons[c] IN
    (r.topN > 0) =>
      /\ r.minPow.present
      /\ \E act \in ActChoices(Ev, p') : act # {} /\ r.minPow.v = TopNThreshold(p', act, r.topN)
  ]_vars

\* a successful owner update that changes Top-N recomputes (or deletes) the stored threshold
C03_UpdateThreshold == [][
  (PStep /\ Txn(Ev, "UpdateConsumer") /\ OkTx(Ev) /\ Has(Ev.args, "shaping")) =>
    LET c == Ev.args.c  r0 == p.cons[c]  r == p'.cons[c] IN
    (r.topN # r0.topN) =>
      IF r.topN = 0 THEN ~r.minPow.present
      ELSE /\ r.minPow.present
           /\ \E act \in { ActiveRec(p'), ActiveIdx(p') } : act # {} /\ r.minPow.v = TopNThreshold(p', act, r.topN)
  ]_vars

C03_AutoOptIn == [][
  (PStep /\ ComputesSet(Ev)) =>
    LET c == Ev.args.c  r == p'.cons[c] IN
    (r.topN > 0 /\ r.minPow.present) =>
      \E act \in ActChoices(Ev, p') :
        \A v \in act : p'.vals[v].lp >= r.minPow.v =>
          /\ v \in SeqToSet(r.optedIn)
          /\ ( /\ p'.vals[v].st = "bonded" /\ ~p'.vals[v].jailed
               /\ (r.allowL = << >> \/ v \in SeqToSet(r.allowL)) /\ v \notin SeqToSet(r.denyL)
               /\ p'.vals[v].tok >= r.minStake )
             => v \in DOMAIN r.cvs
  ]_vars

\* opt-out attempts (signed by the validator's own operator)
C03_OptOut == [][
  (PStep /\ Txn(Ev, "OptOut") /\ ~Has(Ev.args, "signer") /\ Ev.args.c \in Cons(p) /\ Ev.args.v \in DOMAIN p.vals) =>
    LET c == Ev.args.c  v == Ev.args.v  r == p.cons[c]
        free == r.topN = 0 \/ (r.minPow.present /\ p.vals[v].lp < r.minPow.v) IN
    /\ OkTx(Ev) => (r.phase = "launched" /\ free /\ v \notin SeqToSet(p'.cons[c].optedIn))
    /\ (r.phase = "launched" /\ free) => OkTx(Ev)
    /\ ~OkTx(Ev) => p'.dig.all = p.dig.all
  ]_vars

\* records appear only by the validator's own opt-in or the Top-N rule,
\* and disappear only by its own opt-out or the consumer's deletion
C03_OptInRecords == [][
  PStep =>
    \A c \in Cons(p) \cap Cons(p') :
      LET o0 == SeqToSet(p.cons[c].optedIn)  o1 == SeqToSet(p'.cons[c].optedIn)  r == p'.cons[c] IN
      /\ (o1 \ o0 # {}) =>
           \/ Txn(Ev, "OptIn") /\ OkTx(Ev) /\ Ev.args.c = c /\ o1 \ o0 = { Ev.args.v }
           \/ ComputesSet(Ev) /\ Ev.args.c = c /\ r.topN > 0
                /\ \A v \in o1 \ o0 : r.minPow.present /\ p'.vals[v].lp >= r.minPow.v
      /\ (o0 \ o1 # {}) =>
           \/ Txn(Ev, "OptOut") /\ OkTx(Ev) /\ Ev.args.c = c /\ o0 \ o1 = { Ev.args.v }
           \/ Ev.a = "PRemoveOK" /\ Ev.args.c = c
      \* members below the threshold are there only because they opted in
      /\ (ComputesSet(Ev) /\ Ev.args.c = c /\ r.topN > 0 /\ r.minPow.present) =>
           \A v \in DOMAIN r.cvs : (v \in DOMAIN p'.vals /\ p'.vals[v].lp < r.minPow.v) => v \in o1
  ]_vars

(* ======================================================================= *)
(* C04  validator-set cap, priority list, power cap                         *)
(* ======================================================================= *)

C04_Cap == [][
  (PStep /\ ComputesSet(Ev)) =>
    LET c == Ev.args.c  r == p'.cons[c] IN
    (r.topN = 0 /\ r.valCap > 0) =>
      \E act \in ActChoices(Ev, p') :
        CapPost(r.valCap, SeqToSet(r.prioL), LP(p'), Elig(p', c, act), DOMAIN r.cvs)
  ]_vars

C04_PowerCap == [][
  (PStep /\ ComputesSet(Ev)) =>
    LET c == Ev.args.c  r == p'.cons[c]
        in  == [ v \in DOMAIN r.cvs |-> p'.vals[v].lp ]
        out == [ v \in DOMAIN r.cvs |-> r.cvs[v].pow ] IN
    (r.powCap > 0 /\ DOMAIN r.cvs # {}) => PowerCapPost(r.powCap, in, out)
  ]_vars


(* ---- C04 on the real exported functions, over a complete small input domain (corpus "vectors") ---- *)
C04_VecPowerCap == (E.a = "VecPowerCap") => PowerCapPost(E.args.p, E.args.in, E.res.out)
C04_VecSetCap ==
  (E.a = "VecSetCap") =>
    E.res.out = (IF E.args.topN = 0 /\ E.args.cap > 0 /\ E.args.cap < Len(E.args.in) THEN SubSeq(E.args.in, 1, E.args.cap) ELSE E.args.in)


(* ---- C04 for extreme values: multi-limb naturals (4 limbs, base 10^6, least significant first) ------------- *)
\* TLC integers are 32-bit; voting powers near CometBFT's limit (~1.15 * 10^18) are handed over as limb sequences
BBASE == 1000000
BZero == <<0, 0, 0, 0>>
BOne  == <<1, 0, 0, 0>>
BAdd(a, b) ==
  LET C[i \in 0..4] == IF i = 0 THEN 0 ELSE (a[i] + b[i] + C[i-1]) \div BBASE
  IN  [ i \in 1..4 |-> (a[i] + b[i] + C[i-1]) % BBASE ]
BMulSmall(a, k) ==      \* k <= 100
  LET C[i \in 0..4] == IF i = 0 THEN 0 ELSE (a[i] * k + C[i-1]) \div BBASE
  IN  [ i \in 1..4 |-> (a[i] * k + C[i-1]) % BBASE ]
BDivSmall(a, k) ==      \* floor(a / k), k <= 100
  LET R[i \in 1..5] == IF i = 5 THEN 0 ELSE (R[i+1] * BBASE + a[i]) % k
  IN  [ i \in 1..4 |-> (R[i+1] * BBASE + a[i]) \div k ]
BLess(a, b) == \E i \in 1..4 : a[i] < b[i] /\ \A j \in (i+1)..4 : a[j] = b[j]
BLeq(a, b)  == a = b \/ BLess(a, b)
BSum(S, f)  == FoldSet(LAMBDA x, acc : BAdd(acc, f[x]), BZero, S)

PowerCapPostBig(pct, in, out, negs) ==
  LET D     == DOMAIN in
      S     == BSum(D, in)
      m0    == BDivSmall(BMulSmall(S, pct), 100)
      maxP  == IF m0 = BZero THEN BOne ELSE m0
      feas  == BLeq(S, BMulSmall(maxP, Cardinality(D)))
  IN  /\ negs = << >>                       \* no negative power
      /\ DOMAIN out = D
      /\ IF feas
           THEN /\ \A v \in D : BLeq(out[v], maxP) /\ BLeq(BOne, out[v])
                /\ BSum(D, out) = S
                /\ \A a, b \in D : BLess(in[b], in[a]) => BLeq(out[b], out[a])
                /\ \A v \in D : BLeq(in[v], maxP) => BLeq(in[v], out[v])
           ELSE \A v \in D : out[v] = maxP

C04_VecPowerCapBig == (E.a = "VecPowerCapBig") => PowerCapPostBig(E.args.p, E.args.in, E.res.out, E.res.negs)

(* ======================================================================= *)
(* C12  validator-set update ids and heights                                *)
(* ======================================================================= *)

\* the id moves only at the end of the queueing step, by one
C12_IdStep == [][
  PStep =>
    /\ p'.vscId \in { p.vscId, p.vscId + 1 }
    /\ (p'.vscId # p.vscId) => Ev.a = "PEndQueueVSC"
  ]_vars

\* exactly one increment per epoch-boundary block, none in other blocks
C12_IdPerEpoch == [][
  (PStep /\ Ev.a = "Block") =>
    p'.vscId = g.blockVsc + (IF p'.h % p'.bpe = 0 THEN 1 ELSE 0)
  ]_vars

\* ids queued for a consumer strictly increase and never exceed the current id
C12_PacketIds ==
  (IsProv(E) /\ E.a # "Init") =>
    \A c \in Cons(p) :
      LET ids == PendIds(p, c) IN
      /\ \A i, j \in DOMAIN ids : i < j => ids[i] < ids[j]
      /\ \A i \in DOMAIN ids : ids[i] <= p.vscId

\* every completed id maps to the height right after the block that produced it, and never moves again
C12_IdHeight == [][
  PStep =>
    /\ (Ev.a = "PEndQueueVSC") =>
         /\ Has(p'.v2h, ToString(p.vscId))
         /\ p'.v2h[ToString(p.vscId)] = p'.h + 1
    /\ (Ev.a = "PEndCIS") =>
         /\ Has(p'.v2h, ToString(p'.vscId)) /\ p'.v2h[ToString(p'.vscId)] = p'.h + 1
    /\ \A k \in DOMAIN p.v2h \cap DOMAIN p'.v2h :
         (k # ToString(p.vscId)) => p'.v2h[k] = p.v2h[k]
  ]_vars

\* consumer: the height after each block maps to the id of the latest update received so far; history is stable
C12_ConsumerMap ==
  (E.a = "Block" /\ ~IsProv(E)) =>
    LET st == cs[E.chain] IN
    /\ Has(st.h2id, ToString(st.h + 1))
    /\ st.h2id[ToString(st.h + 1)] = RecvMax(E.chain)

C12_ConsumerMapStable == [][
  (CStep /\ Ev.chain \in DOMAIN cs) =>
    LET a == cs[Ev.chain].h2id  b == cs'[Ev.chain].h2id  hh == cs'[Ev.chain].h IN
    \A k \in DOMAIN a \cap DOMAIN b : (k # ToString(hh + 1)) => a[k] = b[k]
  ]_vars


(* ======================================================================= *)
(* C15  the provider's own consensus set                                    *)
(* ======================================================================= *)

C15_TopM == [][
  (PStep /\ Ev.a = "PEndProvVals") =>
    LET s == p'  mem == ActiveRec(s)  b == Bonded(s) IN
    /\ \A k \in DOMAIN s.lps : \E v \in DOMAIN s.vals : s.vals[v].pk = k
    /\ Cardinality(DOMAIN s.lps) = Min2(s.M, Cardinality(b))
    /\ mem \subseteq b
    /\ \A e \in b \ mem, m \in mem : s.vals[e].lp <= s.vals[m].lp
    /\ \A v \in mem : s.lps[s.vals[v].pk] = s.vals[v].lp
  ]_vars

\* the updates handed to the engine are exactly the difference to the previously recorded set
C15_Diff == [][
  (PStep /\ Ev.a = "Block") =>
    /\ Ev.args.updates = DiffSets(g.lpsPrev, p'.lps)
    /\ Ev.args.engine = p'.lps
    /\ Cardinality(DOMAIN Ev.args.engine) <= p'.M
  ]_vars

\* the staking views the provider module offers to governance and mint (bonded validators by power, total bonded tokens,
\* bonded ratio) cover exactly the validators handed to consensus: checked at the end of every provider block
C15_Views ==
  (IsProv(E) /\ E.a = "Block" /\ Has(p, "views")) =>
    LET top == SubSeq(p.order, 1, Min2(p.M, Len(p.order))) IN
    /\ p.views.iter = top
    /\ SeqToSet(p.views.iter) = ActiveRec(p)
    /\ p.views.total = SumOver(SeqToSet(top), [ v \in DOMAIN p.vals |-> p.vals[v].tok ])
    /\ p.views.ratioTotal = p.views.total

\* the recorded set changes only in the provider's own end-block step
C15_OnlyThere == [][
  PStep => ((p'.lps # p.lps) => Ev.a = "PEndProvVals")
  ]_vars


(* ======================================================================= *)
(* C05  a consumer consensus key never belongs to two validators            *)
(* ======================================================================= *)

ActivePhase(ph) == ph \in { "registered", "initialized", "launched" }
KeyOwners(s, c, k) ==
  { v \in DOMAIN s.cons[c].valKey : s.cons[c].valKey[v] = k }
  \cup (IF k \in DOMAIN s.cons[c].keyVal THEN { s.cons[c].keyVal[k] } ELSE {})
  \cup { v \in DOMAIN s.vals : s.vals[v].pk = k }
KeysOf(s, c) == Range(s.cons[c].valKey) \cup DOMAIN s.cons[c].keyVal \cup { s.vals[v].pk : v \in DOMAIN s.vals }

C05_Injective ==
  (IsProv(E) /\ E.a # "Init") =>
    \A c \in Cons(p) : ActivePhase(p.cons[c].phase) =>
      \A k \in KeysOf(p, c) : Cardinality(KeyOwners(p, c, k)) <= 1

\* an assignment (own operator signing) is accepted exactly when the key is free for that validator
C05_Reject == [][
  (PStep /\ (Txn(Ev, "AssignKey") \/ (Txn(Ev, "OptIn") /\ Has(Ev.args, "key")))
         /\ ~Has(Ev.args, "signer") /\ Ev.args.c \in Cons(p) /\ Ev.args.v \in DOMAIN p.vals) =>
    LET c == Ev.args.c  v == Ev.args.v  k == Ev.args.key  r == p.cons[c]
        free == /\ ActivePhase(r.phase)
                /\ ~\E v2 \in DOMAIN p.vals : v2 # v /\ p.vals[v2].pk = k
                /\ ~(p.vals[v].pk = k /\ v \notin DOMAIN r.valKey)
                /\ k \notin DOMAIN r.keyVal IN
    /\ OkTx(Ev) <=> free
    /\ OkTx(Ev) => /\ p'.cons[c].valKey[v] = k /\ p'.cons[c].keyVal[k] = v
                   /\ \A v2 \in DOMAIN r.valKey : v2 # v => p'.cons[c].valKey[v2] = r.valKey[v2]
    /\ ~OkTx(Ev) => p'.dig.all = p.dig.all
  ]_vars

\* a validator cannot be created with a key that is known on an active consumer
C05_Create == [][
  (PStep /\ Txn(Ev, "CreateValidator")) =>
    LET k == Ev.args.key
        known == \E c \in Cons(p) : ActivePhase(p.cons[c].phase) /\ k \in DOMAIN p.cons[c].keyVal IN
    known => (~OkTx(Ev) /\ ~\E v \in DOMAIN p'.vals : p'.vals[v].pk = k /\ v \notin DOMAIN p.vals)
  ]_vars

(* ======================================================================= *)
(* C06  replaced consumer keys stay attributable for the unbonding period   *)
(* ======================================================================= *)

Resolve(s, c, k) ==
  IF k \in DOMAIN s.cons[c].keyVal THEN s.cons[c].keyVal[k]
  ELSE IF \E v \in DOMAIN s.vals : s.vals[v].pk = k THEN CHOOSE v \in DOMAIN s.vals : s.vals[v].pk = k
  ELSE "nobody"

C06_Attributable ==
  (IsProv(E) /\ E.a # "Init") =>
    \A r \in g.replaced :
      (r.c \in Cons(p) /\ p.cons[r.c].phase \in {"launched", "stopped"} /\ p.t < r.until /\ r.v \in DOMAIN p.vals)
        => Resolve(p, r.c, r.k) = r.v

\* at the first end-block at or after the deadline the key is forgotten
C06_Free == [][
  (PStep /\ Ev.a = "PEndCIS") =>
    \A r \in g.replaced :
      (r.until <= p'.t /\ r.c \in Cons(p') /\ p'.cons[r.c].phase = "launched")
        => (r.k \notin DOMAIN p'.cons[r.c].keyVal \/ \E v \in DOMAIN p'.cons[r.c].valKey : p'.cons[r.c].valKey[v] = r.k)
  ]_vars

\* the prune list and the reverse index agree: every key scheduled for pruning is still resolvable
C06_PruneListed ==
  (IsProv(E) /\ E.a # "Init") =>
    \A c \in Cons(p) : \A i \in DOMAIN p.cons[c].toPrune :
      \A k \in SeqToSet(p.cons[c].toPrune[i].keys) : k \in DOMAIN p.cons[c].keyVal

(* ======================================================================= *)
(* C10  lifecycle: ids, phase machine, launch schedule                      *)
(* ======================================================================= *)

ConsName(i) == "c" \o ToString(i)

C10_Ids == [][
  PStep =>
    /\ p'.nextId \in { p.nextId, p.nextId + 1 }
    /\ Cons(p') = { ConsName(i) : i \in 0..(p'.nextId - 1) }
    /\ (p'.nextId = p.nextId + 1) <=> (Txn(Ev, "CreateConsumer") /\ OkTx(Ev))
    /\ (Txn(Ev, "CreateConsumer") /\ OkTx(Ev)) => Ev.res.newId = ConsName(p.nextId)
  ]_vars

C10_PhaseStep == [][
  PStep =>
    \A c \in Cons(p') :
      <<IF c \in Cons(p) THEN p.cons[c].phase ELSE "none", p'.cons[c].phase>> \in PhaseEdges
  ]_vars

\* which events may move a phase
C10_PhaseCause == [][
  PStep =>
    \A c \in Cons(p) \cap Cons(p') :
      LET a == p.cons[c].phase  b == p'.cons[c].phase IN
      (a # b) =>
        CASE b = "launched"    -> Ev.a = "PLaunchOK" /\ Ev.args.c = c
          [] b = "deleted"     -> Ev.a = "PRemoveOK" /\ Ev.args.c = c
          [] b = "initialized" -> Txn(Ev, "UpdateConsumer") /\ OkTx(Ev) /\ Ev.args.c = c
          [] b = "registered"  -> (Ev.a = "PLaunchFail" /\ Ev.args.c = c) \/ (Txn(Ev, "UpdateConsumer") /\ OkTx(Ev) /\ Ev.args.c = c)
          [] b = "stopped"     -> \/ (Txn(Ev, "RemoveConsumer") /\ OkTx(Ev) /\ Ev.args.c = c)
                                  \/ ((Txn(Ev, "Ack") \/ Txn(Ev, "Timeout")) /\ OkTx(Ev) /\ Ev.args.c = c)
                                  \/ (Ev.a = "PSendVSC" /\ Ev.args.c = c)
          [] OTHER -> FALSE
  ]_vars

C10_InitIffSpawn ==
  (IsProv(E) /\ E.a # "Init") =>
    \A c \in Cons(p) :
      (p.cons[c].phase \in {"registered", "initialized"}) => ((p.cons[c].phase = "initialized") <=> p.cons[c].spawnSet)

OccursAt(q, c, t) == \E i \in DOMAIN q : q[i].t = t /\ c \in SeqToSet(q[i].ids)
Occurrences(q, c) == FoldSet(LAMBDA i, acc : acc + Cardinality({ j \in DOMAIN q[i].ids : q[i].ids[j] = c }), 0, DOMAIN q)

\* outside the launch step itself, a consumer is queued exactly once, at its spawn time, iff it is initialized
C10_QueueExact ==
  (IsProv(E) /\ E.a \notin {"Init", "PLaunchDue", "PLaunchOK", "PLaunchFail"}) =>
    \A c \in Cons(p) :
      IF p.cons[c].phase = "initialized"
        THEN Occurrences(p.launchQ, c) = 1 /\ OccursAt(p.launchQ, c, p.cons[c].spawn)
        ELSE Occurrences(p.launchQ, c) = 0

\* all due consumers (at most 200, in queue order) are processed in the block in which they are due
C10_LaunchWhenDue == [][
  PStep =>
    /\ (Ev.a = "PLaunchDue") =>
         LET due == FlattenDue(p.launchQ, p'.t) IN
         /\ QueuedIds(p'.launchQ) = QueuedIds(p.launchQ) \ SeqToSet(Take(due, 200))
         /\ ConsumedUpTo200(p.launchQ, p'.launchQ, p'.t)
         /\ (Len(due) <= 200) => \A i \in DOMAIN p'.launchQ : p'.launchQ[i].t > p'.t
    /\ (Ev.a \in {"PLaunchOK", "PLaunchFail"}) =>
         /\ g.nLaunch < Len(g.dueSeq)
         /\ Ev.args.c = g.dueSeq[g.nLaunch + 1]
    /\ (Ev.a = "PBeginLaunch") => g.nLaunch = Len(g.dueSeq)
  ]_vars

C10_LaunchOutcome == [][
  PStep =>
    /\ (Ev.a = "PLaunchOK") =>
         LET r == p'.cons[Ev.args.c] IN
         /\ r.phase = "launched" /\ r.genesis.present /\ r.client # "" /\ DOMAIN r.cvs # {}
         /\ \E v \in DOMAIN r.cvs : v \in ActiveRec(p') \cup ActiveIdx(p')
         /\ r.client \in SeqToSet(p'.clients)
    /\ (Ev.a = "PLaunchFail") =>
         LET r == p'.cons[Ev.args.c] IN
         /\ r.phase = "registered" /\ ~r.spawnSet /\ ~r.genesis.present /\ r.client = "" /\ DOMAIN r.cvs = {}
  ]_vars

(* ======================================================================= *)
(* C13  consumers are isolated from one another                             *)
(* ======================================================================= *)

DigOf(s, c) == IF c \in DOMAIN s.dig.cons THEN s.dig.cons[c] ELSE "none"
NamesConsumer(e) == Has(e.args, "c") /\ (e.a \in {"PLaunchOK", "PLaunchFail", "PRemoveOK", "PRemoveFail", "PQueueVSC", "PSendVSC", "PAllocateOK", "PAllocateFail"}
                                          \/ SubSeq(e.a, 1, 3) = "Tx:")

\* a step that concerns consumer c leaves every other consumer's abstract record and raw store keys untouched
C13_Frame == [][
  (PStep /\ NamesConsumer(Ev)) =>
    \A c2 \in Cons(p) \cap Cons(p') :
      (c2 # Ev.args.c) => (p'.cons[c2] = p.cons[c2] /\ DigOf(p', c2) = DigOf(p, c2))
  ]_vars

\* creating a consumer, and transactions that concern no consumer, touch no existing consumer
C13_FrameOthers == [][
  (PStep /\ SubSeq(Ev.a, 1, 3) = "Tx:" /\ ~Has(Ev.args, "c")) =>
    \A c2 \in Cons(p) \cap Cons(p') : (p'.cons[c2] = p.cons[c2] /\ DigOf(p', c2) = DigOf(p, c2))
  ]_vars

(* ======================================================================= *)
(* C14  authority                                                           *)
(* ======================================================================= *)

C14_Owner == [][
  PStep =>
    /\ ((Txn(Ev, "UpdateConsumer") \/ Txn(Ev, "RemoveConsumer")) /\ OkTx(Ev)) =>
         (Ev.args.c \in Cons(p) /\ Ev.args.sender = p.cons[Ev.args.c].owner)
    /\ \A c \in Cons(p) \cap Cons(p') :
         (p'.cons[c].owner # p.cons[c].owner) =>
           /\ Txn(Ev, "UpdateConsumer") /\ OkTx(Ev) /\ Ev.args.c = c
           /\ Has(Ev.args, "newOwner") /\ p'.cons[c].owner = Ev.args.newOwner
    /\ (Txn(Ev, "CreateConsumer") /\ OkTx(Ev)) => p'.cons[Ev.res.newId].owner = Ev.args.sender
  ]_vars

C14_TopN ==
  (IsProv(E) /\ E.a # "Init") =>
    \A c \in Cons(p) : (p.cons[c].topN # 0) => (p.cons[c].owner = "gov" /\ p.cons[c].topN \in 50..100)

C14_Create == [][
  (PStep /\ Txn(Ev, "CreateConsumer") /\ Has(Ev.args, "shaping") /\ Has(Ev.args.shaping, "topN")) =>
    (Ev.args.shaping.topN # 0 => ~OkTx(Ev))
  ]_vars

C14_Authority == [][
  PStep =>
    /\ ((Txn(Ev, "UpdateParams") \/ Txn(Ev, "ChangeRewardDenoms")) /\ OkTx(Ev)) => Ev.args.authority = "gov"
    /\ (p'.M # p.M \/ p'.bpe # p.bpe \/ p'.epochsToReward # p.epochsToReward) => (Txn(Ev, "UpdateParams") /\ OkTx(Ev))
    /\ (p'.regDenoms # p.regDenoms) => (Txn(Ev, "ChangeRewardDenoms") /\ OkTx(Ev))
  ]_vars

ValidatorMsg(e) == Txn(e, "OptIn") \/ Txn(e, "OptOut") \/ Txn(e, "AssignKey") \/ Txn(e, "SetCommission")
OperatorOf(v) == "op" \o SubSeq(v, 2, Len(v))

C14_Validator == [][
  (PStep /\ ValidatorMsg(Ev) /\ OkTx(Ev)) =>
    LET c == Ev.args.c  v == Ev.args.v  r == p.cons[c]  r2 == p'.cons[c] IN
    /\ (Has(Ev.args, "signer") => Ev.args.signer = OperatorOf(v))
    /\ (SeqToSet(r2.optedIn) \ SeqToSet(r.optedIn)) \cup (SeqToSet(r.optedIn) \ SeqToSet(r2.optedIn)) \subseteq {v}
    /\ \A v2 \in (DOMAIN r.valKey \cup DOMAIN r2.valKey) \ {v} :
         v2 \in DOMAIN r.valKey /\ v2 \in DOMAIN r2.valKey /\ r.valKey[v2] = r2.valKey[v2]
    /\ \A v2 \in (DOMAIN r.commission \cup DOMAIN r2.commission) \ {v} :
         v2 \in DOMAIN r.commission /\ v2 \in DOMAIN r2.commission /\ r.commission[v2] = r2.commission[v2]
  ]_vars

\* a rejected transaction leaves the provider module's store unchanged
C14_RejectedUnchanged == [][
  (PStep /\ SubSeq(Ev.a, 1, 3) = "Tx:" /\ ~OkTx(Ev)) => p'.dig.all = p.dig.all
  ]_vars

(* ======================================================================= *)
(* C19  block processing never fails; failing consumer operations roll back *)
(* ======================================================================= *)

\* (a provider whose last validator has just left has no consensus set to run with: that is the environment's
\*  precondition, not a property of the code, and the harness avoids it; it is tolerated here to be safe)
C19_NoBlockError == (E.a = "BlockError") => (IsProv(E) /\ Bonded(p) = {})

\* a failed launch changes nothing but phase and spawn time of that consumer
C19_LaunchRollback == [][
  (PStep /\ Ev.a = "PLaunchFail") =>
    LET c == Ev.args.c  r == p.cons[c]  r2 == p'.cons[c] IN
    /\ r2 = [r EXCEPT !.phase = "registered", !.spawn = 0, !.spawnSet = FALSE]
    /\ \A c2 \in Cons(p) : c2 # c => (p'.cons[c2] = p.cons[c2] /\ DigOf(p', c2) = DigOf(p, c2))
    /\ p'.dig.rest = p.dig.rest
    /\ p'.clients = p.clients
    /\ p'.cl2c = p.cl2c /\ p'.ch2c = p.ch2c
  ]_vars

\* ... and nothing a failed launch wrote resurfaces later in the same launch step (e.g. with the next consumer's launch)
C19_FailedStaysRolledBack == [][
  (PStep /\ Ev.a \in {"PLaunchOK", "PLaunchFail", "PBeginLaunch"}) =>
    \A c \in DOMAIN g.failedLaunch : (c \in Cons(p') /\ ~(Ev.a = "PLaunchFail" /\ Ev.args.c = c)) => p'.cons[c] = g.failedLaunch[c]
  ]_vars

\* a failed removal leaves the consumer stopped and intact; a failed allocation leaves credits and pool intact
C19_RemoveRollback == [][
  (PStep /\ Ev.a = "PRemoveFail") => (p'.cons = p.cons /\ p'.dig.all = p.dig.all /\ p'.chans = p.chans)
  ]_vars
C19_AllocateRollback == [][
  (PStep /\ Ev.a = "PAllocateFail") => (p'.cons = p.cons /\ p'.pool = p.pool /\ p'.dig.all = p.dig.all /\ p'.dig.distr = p.dig.distr)
  ]_vars

(* ======================================================================= *)
(* C20  infraction parameters                                               *)
(* ======================================================================= *)

MergeInfr(cur, req) ==
  [ ds |-> IF Has(req, "ds") THEN req.ds ELSE cur.ds, dt |-> IF Has(req, "dt") THEN req.dt ELSE cur.dt ]
\* compare a requested parameter record with an observed one (fractions are compared as numbers of 1/10^4)
SameSJ(a, b) == a.jail = b.jail /\ a.tomb = b.tomb /\ a.frac = b.frac
SameInfr(a, b) == SameSJ(a.ds, b.ds) /\ SameSJ(a.dt, b.dt)

C20_Update == [][
  (PStep /\ Txn(Ev, "UpdateConsumer") /\ OkTx(Ev) /\ Has(Ev.args, "infr")) =>
    LET c == Ev.args.c  r == p.cons[c]  r2 == p'.cons[c]
        want == MergeInfr(r.infr.v, Ev.args.infr) IN
    IF r.phase \in {"registered", "initialized"}
      THEN r2.infr.present /\ SameInfr(r2.infr.v, want) /\ ~r2.infrQd.present
      ELSE /\ r2.infr = r.infr
           /\ IF SameInfr(want, r.infr.v) THEN ~r2.infrQd.present
              ELSE r2.infrQd.present /\ SameInfr(r2.infrQd.v.p, want) /\ r2.infrQd.v.due = p'.t + p'.U
  ]_vars

\* at most one pending change per consumer, scheduled exactly once at its due time
C20_OnePending ==
  (IsProv(E) /\ E.a # "Init") =>
    \A c \in Cons(p) :
      IF p.cons[c].infrQd.present
        THEN Occurrences(p.infrQ, c) = 1 /\ OccursAt(p.infrQ, c, p.cons[c].infrQd.v.due)
        ELSE Occurrences(p.infrQ, c) = 0

\* current parameters change only by an immediate pre-launch update or by applying the queued record when due
C20_Apply == [][
  PStep =>
    /\ \A c \in Cons(p) \cap Cons(p') :
         (p'.cons[c].infr # p.cons[c].infr) =>
           \/ (Txn(Ev, "UpdateConsumer") /\ OkTx(Ev) /\ Ev.args.c = c /\ p.cons[c].phase \in {"registered", "initialized"})
           \/ ( /\ Ev.a = "PBeginInfraction" /\ p.cons[c].infrQd.present /\ p.cons[c].infrQd.v.due <= p'.t
                /\ p'.cons[c].infr.v = p.cons[c].infrQd.v.p /\ ~p'.cons[c].infrQd.present )
    /\ (Ev.a = "PBeginInfraction") =>
         LET due == FlattenDue(p.infrQ, p'.t) IN
         /\ (Len(due) <= 200) => \A i \in DOMAIN p'.infrQ : p'.infrQ[i].t > p'.t
         /\ ConsumedUpTo200(p.infrQ, p'.infrQ, p'.t)
         \* exactly the consumers handed out get their pending change applied, once; the others keep theirs
         /\ \A c \in Cons(p) \cap Cons(p') :
              IF c \in SeqToSet(Take(due, 200))
                THEN /\ p.cons[c].infrQd.present /\ ~p'.cons[c].infrQd.present
                     /\ p'.cons[c].infr.present /\ p'.cons[c].infr.v = p.cons[c].infrQd.v.p
                ELSE p'.cons[c].infrQd = p.cons[c].infrQd /\ p'.cons[c].infr = p.cons[c].infr
    /\ (Ev.a = "PRemoveOK") => ~p'.cons[Ev.args.c].infrQd.present
  ]_vars


(* ======================================================================= *)
(* C08  downtime reports jail exactly the right validator; acknowledgements *)
(* ======================================================================= *)

SlashRecv(e) == Txn(e, "Recv") /\ OkTx(e) /\ Has(e.res, "recv") /\ Len(e.res.recv) = 1 /\ e.res.recv[1].type = "slash"
IdKnown(s, c, id) == IF id = 0 THEN s.cons[c].initChainH.present ELSE Has(s.v2h, ToString(id))
SlashRec(s, c, pkt) ==
  LET tgt == Resolve(s, c, pkt.key)  ex == tgt \in DOMAIN s.vals IN
  [ wellFormed |-> TRUE, idKnown |-> IdKnown(s, c, pkt.id), doubleSign |-> pkt.inf = "doublesign",
    launched |-> s.cons[c].phase = "launched", inSet |-> tgt \in DOMAIN s.cons[c].cvs,
    meterNeg |-> s.meter < 0, exists |-> ex,
    unbonded |-> ex /\ s.vals[tgt].st = "unbonded", tombstoned |-> ex /\ s.vals[tgt].tomb, jailed |-> ex /\ s.vals[tgt].jailed ]
JailView(x) == <<x.jailed, x.tomb, x.ju, x.st>>

C08_Outcome == [][
  (PStep /\ SlashRecv(Ev)) =>
    LET c == Ev.args.c  pkt == Ev.res.recv[1]  tgt == Resolve(p, c, pkt.key)
        out == SlashOutcome(SlashRec(p, c, pkt)) IN
    /\ Has(Ev.res, "acks") /\ Len(Ev.res.acks) = 1 /\ Ev.res.acks[1] = out.ack
    \* C08_Iff: the target is jailed in this step iff the outcome says so
    /\ (tgt \in DOMAIN p.vals) => ((p'.vals[tgt].jailed /\ ~p.vals[tgt].jailed) <=> out.punish)
    \* C08_OnlyTarget: nobody else's jailing state changes
    /\ \A v \in DOMAIN p.vals : (v # tgt) => (v \in DOMAIN p'.vals /\ JailView(p'.vals[v]) = JailView(p.vals[v]))
    /\ (~out.punish /\ tgt \in DOMAIN p.vals) => p'.vals[tgt] = p.vals[tgt]
    \* C08_AckQueued
    /\ p'.cons[c].slashAcks = (IF out.sack THEN Append(p.cons[c].slashAcks, pkt.key) ELSE p.cons[c].slashAcks)
    \* C09_Admit / C09_Deduct
    /\ p'.meter = (IF out.deduct THEN p.meter - (IF tgt \in DOMAIN p.vals /\ ~p.vals[tgt].jailed THEN p.vals[tgt].lp ELSE 0) ELSE p.meter)
    /\ (out.ack \in {"bounced", "error", "v1"}) => (p'.vals = p.vals /\ p'.cons = p.cons)
  ]_vars

\* C20_Used: a punishment uses the consumer's own downtime parameters as in force at handling time
C08_Params == [][
  (PStep /\ SlashRecv(Ev)) =>
    LET c == Ev.args.c  pkt == Ev.res.recv[1]  tgt == Resolve(p, c, pkt.key) IN
    (tgt \in DOMAIN p.vals /\ p'.vals[tgt].jailed /\ ~p.vals[tgt].jailed) =>
      /\ p.cons[c].infr.present
      /\ p'.vals[tgt].ju = ClampT(p'.t + p.cons[c].infr.v.dt.jail)
      /\ (p.cons[c].infr.v.dt.frac = "0.000000000000000000") => p'.vals[tgt].tok = p.vals[tgt].tok
      /\ p'.vals[tgt].tok <= p.vals[tgt].tok
      /\ ~p'.vals[tgt].tomb
  ]_vars

\* the next packet queued for the consumer carries exactly the accumulated acks and clears them
C08_AckCarried == [][
  (PStep /\ Ev.a = "PQueueVSC") =>
    LET c == Ev.args.c  pend == p.cons[c].pendingVSC  pend2 == p'.cons[c].pendingVSC IN
    IF Len(pend2) = Len(pend) + 1
      THEN Last(pend2).acks = p.cons[c].slashAcks /\ p'.cons[c].slashAcks = << >>
      ELSE p'.cons[c].slashAcks = p.cons[c].slashAcks
  ]_vars

\* slash acks change nowhere else
C08_AckOnlyThere == [][
  PStep =>
    \A c \in Cons(p) \cap Cons(p') :
      (p'.cons[c].slashAcks # p.cons[c].slashAcks) =>
        \/ (SlashRecv(Ev) /\ Ev.args.c = c) \/ (Ev.a = "PQueueVSC" /\ Ev.args.c = c) \/ (Ev.a = "PRemoveOK" /\ Ev.args.c = c)
  ]_vars

\* consumer: at most one downtime report per key queued or in flight; the flag is set while one is outstanding
DowntimeIdx(st, k) == { i \in DOMAIN st.pending : st.pending[i].type = "slash" /\ st.pending[i].inf = "downtime" /\ st.pending[i].key = k }
\* a report that was not sent yet has its flag set; the only other report for the same key that may still be queued is
\* the head packet that was sent and already answered through a validator-set packet, while its IBC ack is in flight
C08_Outstanding ==
  (~IsProv(E) /\ E.a # "Init" /\ E.chain \in DOMAIN cs /\ E.chain \notin g.forged) =>
    LET st == cs[E.chain] IN
    \A k \in { st.pending[i].key : i \in DOMAIN st.pending } :
      LET idx == DowntimeIdx(st, k) IN
      /\ Cardinality(idx) <= 2
      /\ \A i \in idx : (i = 1 /\ st.slashRec.present) \/ k \in SeqToSet(st.outstanding)
      /\ (Cardinality(idx) = 2) => (1 \in idx /\ st.slashRec.present)

\* the flag is cleared only by an acknowledgement carried in a validator-set packet, or when the key (re)joins the set
C08_FlagCleared == [][
  (CStep /\ Ev.chain \in DOMAIN cs) =>
    LET a == SeqToSet(cs[Ev.chain].outstanding)  b == SeqToSet(cs'[Ev.chain].outstanding) IN
    (a \ b # {}) =>
      \/ /\ Txn(Ev, "Recv") /\ OkTx(Ev) /\ Has(Ev.res, "recv")
         /\ a \ b \subseteq UNION { SeqToSet(Ev.res.recv[i].acks) : i \in { j \in DOMAIN Ev.res.recv : Ev.res.recv[j].type = "vsc" } }
      \/ /\ Ev.a = "Block"
         /\ \A k \in a \ b : k \notin DOMAIN cs[Ev.chain].ccv /\ k \in DOMAIN cs'[Ev.chain].ccv
  ]_vars

(* ======================================================================= *)
(* C09  throttle: meter bounds on the provider, standby and retry on the    *)
(*      consumer                                                            *)
(* ======================================================================= *)

C09_MeterLeAllowance == [][ (PStep /\ Ev.a = "PBeginCIS") => p'.meter <= p'.allow ]_vars

C09_OncePerPeriod == [][
  PStep =>
    /\ (p'.meter > p.meter) => (Ev.a = "PBeginCIS" /\ p'.meter - p.meter <= p'.allow /\ p'.t >= g.lastRepl + p.replPer)
    \* the meter only falls by handling a report, or by being capped when the allowance itself has shrunk
    /\ (p'.meter < p.meter) => (SlashRecv(Ev) \/ (Ev.a = "PBeginCIS" /\ p'.meter = p'.allow))
    /\ p'.allow >= 1
  ]_vars

\* power jailed on behalf of consumers is bounded by what the meter handed out plus one validator
C09_Window == (IsProv(E) /\ E.a # "Init") => g.jailSum <= Max2(g.meter0, 0) + g.replSum + g.maxJ

\* consumer: sending is permitted iff no slash record, or not waiting and the retry delay has passed
SendPermitted(st) == ~st.slashRec.present \/ (~st.slashRec.v.waiting /\ st.t > st.slashRec.v.sent + st.retryDelay)
CCVSent(e, st) == SelectSeq(e.res.sent, LAMBDA x : x.chan = st.provChan /\ x.type \in {"slash", "matured"})

C09_Standby == [][
  (CStep /\ Ev.a = "CEndSend" /\ Ev.chain \in DOMAIN cs) =>
    LET st == cs[Ev.chain]  st2 == cs'[Ev.chain] IN
    /\ (~SendPermitted(st)) => (st2.pending = st.pending /\ st2.slashRec = st.slashRec)
    \* a slash packet at the head stays there when sent; packets behind it are not sent in the same block
    /\ (SendPermitted(st) /\ st.provChan # "" /\ st.pending # << >> /\ st.pending[1].type = "slash") =>
         (st2.pending = st.pending \/ st2.pending = st.pending)   \* queue unchanged (head stays), see C09_HeadStays
  ]_vars

\* the head slash packet leaves the queue only by a v1 / handled acknowledgement
C09_HeadStays == [][
  (CStep /\ Ev.chain \in DOMAIN cs) =>
    LET st == cs[Ev.chain]  st2 == cs'[Ev.chain] IN
    (st.pending # << >> /\ st.pending[1].type = "slash" /\ (st2.pending = << >> \/ st2.pending[1] # st.pending[1] \/ Len(st2.pending) < Len(st.pending))) =>
      (Txn(Ev, "Ack") /\ OkTx(Ev))
  ]_vars

\* nothing is dropped from behind the head either: the queue only grows at the tail or shrinks at the head
C09_QueueFifo == [][
  (CStep /\ Ev.chain \in DOMAIN cs) =>
    LET a == cs[Ev.chain].pending  b == cs'[Ev.chain].pending IN
    \E d \in 0..Len(a) : Len(b) >= Len(a) - d /\ SubSeq(b, 1, Len(a) - d) = SubSeq(a, d + 1, Len(a))
  ]_vars

(* ======================================================================= *)
(* C11  stopped consumers get no updates and are removed after unbonding    *)
(* ======================================================================= *)

StoppedBoth(c) == c \in Cons(p) /\ c \in Cons(p') /\ p.cons[c].phase = "stopped" /\ p'.cons[c].phase = "stopped"

C11_NoUpdates == [][
  PStep =>
    /\ \A c \in Cons(p) : StoppedBoth(c) =>
         /\ p'.cons[c].cvs = p.cons[c].cvs /\ p'.cons[c].pendingVSC = p.cons[c].pendingVSC
         /\ p'.cons[c].valKey = p.cons[c].valKey \/ SubSeq(Ev.a, 1, 3) = "Tx:"
         /\ p'.cons[c].client = p.cons[c].client /\ p'.cons[c].client # ""
         /\ p'.cons[c].minEvH = p.cons[c].minEvH /\ p'.cons[c].genesis = p.cons[c].genesis
    \* nothing is sent in a block to a consumer that was already stopped when the block began
    /\ (Ev.a = "Block") => SelectSeq(Ev.res.sent, LAMBDA x : x.type = "vsc" /\ x.chan \in g.stoppedAtStart) = << >>
    /\ (Ev.a \in {"PQueueVSC", "PSendVSC"}) => p.cons[Ev.args.c].phase = "launched"
  ]_vars

\* every stop schedules removal one unbonding period later
C11_Stops == [][
  PStep =>
    \A c \in Cons(p) \cap Cons(p') :
      (p.cons[c].phase = "launched" /\ p'.cons[c].phase = "stopped") =>
        /\ p'.cons[c].removalT.present /\ p'.cons[c].removalT.v = p'.t + p'.U
        /\ OccursAt(p'.removeQ, c, p'.t + p'.U)
  ]_vars

\* deletion happens in the first block at or after the scheduled time, never before first stop + U, at most 200 a block
C11_RemoveWhenDue == [][
  PStep =>
    /\ (Ev.a = "PRemoveOK") =>
         /\ Ev.args.c \in DOMAIN g.firstStop /\ p'.t >= g.firstStop[Ev.args.c]
         /\ p.cons[Ev.args.c].phase = "stopped" /\ p'.cons[Ev.args.c].phase = "deleted"
    /\ (Ev.a = "PRemoveDue") =>
         LET due == FlattenDue(p.removeQ, p'.t) IN
         /\ (Len(due) <= 200) => \A i \in DOMAIN p'.removeQ : p'.removeQ[i].t > p'.t
         /\ ConsumedUpTo200(p.removeQ, p'.removeQ, p'.t)
    /\ (Ev.a \in {"PRemoveOK", "PRemoveFail"}) => (g.nRemove < Len(g.remSeq) /\ Ev.args.c = g.remSeq[g.nRemove + 1])
    /\ (Ev.a = "PBeginRemove") => g.nRemove = Len(g.remSeq)
  ]_vars

\* 52: a consumer stopped more than once (several timed-out packets) keeps a later removal-queue entry, which is
\* consumed harmlessly when due; the statement does not list the removal schedule among the deleted state
RetainedPrefixes == { 44, 45, 46, 47, 48, 49, 52, 54, 55, 57 }
C11_Residue == [][
  (PStep /\ Ev.a = "PRemoveOK") =>
    LET c == Ev.args.c  r == p'.cons[c] IN
    /\ r.client = "" /\ r.chan = "" /\ ~r.genesis.present /\ r.cvs = << >> /\ r.optedIn = << >>
    /\ r.valKey = << >> /\ r.keyVal = << >> /\ r.toPrune = << >> /\ r.pendingVSC = << >> /\ r.slashAcks = << >>
    /\ r.allowL = << >> /\ r.denyL = << >> /\ r.prioL = << >> /\ r.commission = << >>
    /\ ~r.infrQd.present /\ ~r.removalT.present /\ ~r.minPow.present /\ ~r.initChainH.present /\ r.minEvH = 0
    /\ \A k \in DOMAIN p'.cl2c : p'.cl2c[k] # c
    /\ \A k \in DOMAIN p'.ch2c : p'.ch2c[k] # c
    /\ (c \in DOMAIN p'.dig.prefixes) => SeqToSet(p'.dig.prefixes[c]) \subseteq RetainedPrefixes
    /\ Occurrences(p'.infrQ, c) = 0
    \* descriptive records are retained
    /\ r.chain = p.cons[c].chain /\ r.owner = p.cons[c].owner /\ r.topN = p.cons[c].topN
    \* the provider's channel end is closed (tolerated: open if the consumer's light client had expired)
    /\ (p.cons[c].chan # "" /\ p.cons[c].chan \in DOMAIN p'.chans) =>
         p'.chans[p.cons[c].chan].state \in {"STATE_CLOSED", "STATE_OPEN"}
  ]_vars

\* a deleted consumer never becomes active again and gets no key/opt-in state
C11_DeletedStaysEmpty ==
  (IsProv(E) /\ E.a # "Init") =>
    \A c \in Cons(p) : p.cons[c].phase = "deleted" =>
      (p.cons[c].cvs = << >> /\ p.cons[c].optedIn = << >> /\ p.cons[c].valKey = << >> /\ p.cons[c].client = "")


(* ======================================================================= *)
(* C17  consumers, light clients and CCV channels are bound one to one      *)
(* ======================================================================= *)

WithClient(s) == { c \in Cons(s) : s.cons[c].client # "" }
WithChan(s)   == { c \in Cons(s) : s.cons[c].chan # "" }

C17_ClientInjective ==
  (IsProv(E) /\ E.a # "Init") =>
    /\ \A c1, c2 \in WithClient(p) : (c1 # c2) => p.cons[c1].client # p.cons[c2].client
    /\ \A c \in WithClient(p) : Has(p.cl2c, p.cons[c].client) /\ p.cl2c[p.cons[c].client] = c
    /\ \A k \in DOMAIN p.cl2c : p.cl2c[k] \in Cons(p) /\ p.cons[p.cl2c[k]].client = k

C17_ChannelInjective ==
  (IsProv(E) /\ E.a # "Init") =>
    /\ \A c1, c2 \in WithChan(p) : (c1 # c2) => p.cons[c1].chan # p.cons[c2].chan
    /\ \A c \in WithChan(p) : Has(p.ch2c, p.cons[c].chan) /\ p.ch2c[p.cons[c].chan] = c
    /\ \A k \in DOMAIN p.ch2c : p.ch2c[k] \in Cons(p) /\ p.cons[p.ch2c[k]].chan = k

\* the channel bound to a consumer is an ordered channel built directly on that consumer's client
C17_Attribution ==
  (IsProv(E) /\ E.a # "Init") =>
    \A c \in WithChan(p) :
      LET ch == p.cons[c].chan IN
      (ch \in DOMAIN p.chans) =>
        /\ p.chans[ch].client = p.cons[c].client
        /\ p.chans[ch].order = "ORDER_ORDERED"

ConnOwner(s, conn) ==
  LET cl == IF conn \in DOMAIN s.conns THEN s.conns[conn] ELSE "" IN
  IF cl \in DOMAIN s.cl2c THEN s.cl2c[cl] ELSE "none"

TryAcceptable(s, a) ==
  LET o == ConnOwner(s, a.conn) IN
  /\ a.order = "ORDER_ORDERED" /\ a.cport = "consumer" /\ a.version = "1" /\ a.hops = 1
  /\ o # "none" /\ s.cons[o].client = s.conns[a.conn] /\ s.cons[o].chan = ""

C17_Try == [][
  (PStep /\ Txn(Ev, "ChanOpenTry") /\ Has(Ev.args, "order") /\ Ev.args.pport = "provider") =>
    /\ OkTx(Ev) => TryAcceptable(p, Ev.args)
    /\ (Has(Ev.args, "coreOk") /\ TryAcceptable(p, Ev.args)) => OkTx(Ev)
    /\ p'.cons = p.cons   \* a Try never binds anything
  ]_vars

C17_Confirm == [][
  (PStep /\ Txn(Ev, "ChanOpenConfirm") /\ Has(Ev.args, "chan") /\ Ev.args.pport = "provider") =>
    LET o == ConnOwner(p, Ev.args.conn) IN
    /\ OkTx(Ev) => ( /\ o # "none" /\ p.cons[o].chan = ""
                     /\ p'.cons[o].chan = Ev.args.chan /\ p'.ch2c[Ev.args.chan] = o
                     /\ p'.cons[o].initChainH.present /\ p'.cons[o].initChainH.v = p'.h )
    /\ (o # "none" /\ p.cons[o].chan # "") => ~OkTx(Ev)
  ]_vars

\* the provider never initiates or acknowledges a CCV handshake
C17_InitAck == [][
  (PStep /\ (Txn(Ev, "ChanOpenInit") \/ Txn(Ev, "ChanOpenAck")) /\ Has(Ev.args, "pport") /\ Ev.args.pport = "provider") => ~OkTx(Ev)
  ]_vars

\* bindings change only by a launch, a confirmed handshake, or the consumer's deletion
C17_BindingsOnlyThere == [][
  PStep =>
    \A c \in Cons(p) \cap Cons(p') :
      /\ (p'.cons[c].chan # p.cons[c].chan) =>
           \/ (Txn(Ev, "ChanOpenConfirm") /\ OkTx(Ev) /\ p.cons[c].chan = "")
           \/ (Ev.a = "PRemoveOK" /\ Ev.args.c = c /\ p'.cons[c].chan = "")
      /\ (p'.cons[c].client # p.cons[c].client) =>
           \/ (Ev.a = "PLaunchOK" /\ Ev.args.c = c /\ p.cons[c].client = "")
           \/ (Ev.a = "PRemoveOK" /\ Ev.args.c = c /\ p'.cons[c].client = "")
  ]_vars

\* consumer side: channels are opened only over the recorded provider client, not after the CCV channel exists;
\* the channel adopted is the one the first validator-set packet arrives on, and packets never arrive on another
C17_ConsumerInit == [][
  (CStep /\ Txn(Ev, "ChanOpenInit") /\ Has(Ev.args, "order") /\ OkTx(Ev) /\ Ev.args.cport = "consumer") =>
    LET st == cs[Ev.chain] IN
    /\ Ev.args.order = "ORDER_ORDERED" /\ Ev.args.pport = "provider" /\ Ev.args.version = "1"
    /\ Has(st.conns, Ev.args.cconn) /\ st.conns[Ev.args.cconn] = st.provClient
    /\ st.provChan = ""
  ]_vars

C17_FirstVSC == [][
  (CStep /\ Txn(Ev, "Recv") /\ OkTx(Ev) /\ Has(Ev.res, "recv")) =>
    LET st == cs[Ev.chain]  st2 == cs'[Ev.chain]  r == Ev.res.recv IN
    \A i \in DOMAIN r : (r[i].type = "vsc" /\ Has(r[i], "dstChan")) =>
      /\ st2.provChan = r[i].dstChan
      /\ (st.provChan # "") => st.provChan = r[i].dstChan
  ]_vars


(* ======================================================================= *)
(* C18  determinism: independent replicas fed the same history agree        *)
(* ======================================================================= *)

\* per block: chain / height / application hash / digest of the FinalizeBlock response (tx results, events incl.
\* packets and acknowledgements, validator updates) as computed by each replica
C18_Agree == (E.a = "Obs") => (E.args.r1 = E.args.r2 /\ E.args.r2 = E.args.r3)
C18_SameLength == (E.a = "ObsLen") => (E.args.r1 = E.args.r2 /\ E.args.r2 = E.args.r3)


(* ======================================================================= *)
(* C16  rewards: split, transmission, crediting, payout, conservation       *)
(* ======================================================================= *)

\* consumer end-block: fees are split exactly, the provider's share accumulates or is handed over completely
C16_Split == [][
  (CStep /\ Ev.a = "CEndRD" /\ Ev.chain \in DOMAIN cs) =>
    LET pre == cs[Ev.chain]  post == cs'[Ev.chain]
        ds == DOMAIN pre.bal.fee \cup DOMAIN pre.bal.toSend \cup DOMAIN pre.bal.redist IN
    /\ post.bal.fee = << >>
    /\ \A d \in ds :
         /\ Get(post.bal.redist, d) = Get(pre.bal.redist, d) + ConsShare(pre, d)
         /\ Get(post.bal.toSend, d) =
              (IF Sendable(pre, post.h, d) THEN 0 ELSE Get(pre.bal.toSend, d) + Get(pre.bal.fee, d) - ConsShare(pre, d))
    /\ post.lastTx = (IF TransmitDue(pre, post.h) THEN post.h ELSE pre.lastTx)
  ]_vars

\* exactly the expected amounts leave as reward transfers, addressed to the provider's pool and tagged with this consumer
XferSum(sent, d) == FoldSet(LAMBDA i, acc : acc + sent[i].amt, 0, { i \in DOMAIN sent : sent[i].type = "transfer" /\ sent[i].denom = d })
C16_Transmit == [][
  (CStep /\ Ev.a = "Block" /\ Ev.chain \in DOMAIN g.expXfer /\ Ev.chain \notin g.forged) =>
    LET exp == g.expXfer[Ev.chain]  sent == Ev.res.sent IN
    /\ \A d \in DOMAIN exp : XferSum(sent, d) = exp[d]
    /\ \A i \in DOMAIN sent : (sent[i].type = "transfer") =>
         (sent[i].denom \in DOMAIN exp /\ sent[i].toPool /\ sent[i].memoC = Ev.chain)
  ]_vars

CreditInt(s, c, d)  == IF d \in DOMAIN s.cons[c].credit THEN s.cons[c].credit[d][1] ELSE 0
CreditFrac(s, c, d) == IF d \in DOMAIN s.cons[c].credit THEN s.cons[c].credit[d][2] ELSE 0
AllDenoms(s) == DOMAIN s.pool \cup UNION { DOMAIN s.cons[c].credit : c \in Cons(s) }
RewardRecv(e) == Txn(e, "Recv") /\ OkTx(e) /\ Has(e.res, "recv") /\ Len(e.res.recv) = 1 /\ e.res.recv[1].type = "transfer" /\ e.res.recv[1].toPool

\* a reward transfer into the pool is credited, in full, to the sending consumer and to nobody else
C16_Credit == [][
  (PStep /\ RewardRecv(Ev) /\ Ev.res.acks = <<"v1">>) =>
    LET pk == Ev.res.recv[1]
        c  == IF pk.memoC # "" THEN pk.memoC ELSE Ev.args.c
        ds == { d \in AllDenoms(p') : Get(p'.pool, d) # Get(p.pool, d) } IN
    /\ Cardinality(ds) = 1
    /\ \A d \in ds :
         /\ Get(p'.pool, d) = Get(p.pool, d) + pk.amt
         /\ (c \in Cons(p)) => (CreditInt(p', c, d) = CreditInt(p, c, d) + pk.amt /\ CreditFrac(p', c, d) = CreditFrac(p, c, d))
         /\ \A c2 \in Cons(p) : (c2 # c) => p'.cons[c2].credit = p.cons[c2].credit
         \* a voucher is minted on arrival; a denom native to the provider comes back out of escrow
         /\ Get(p'.supply, d) = Get(p.supply, d) + (IF Len(d) > 4 /\ SubSeq(d, 1, 4) = "ibc/" THEN pk.amt ELSE 0)
  ]_vars

\* credits and the pool move nowhere else; vouchers are minted nowhere else
C16_OnlyThere == [][
  PStep =>
    /\ \A c \in Cons(p) \cap Cons(p') :
         (p'.cons[c].credit # p.cons[c].credit) => (RewardRecv(Ev) \/ (Ev.a = "PAllocateOK" /\ Ev.args.c = c))
    /\ (p'.pool # p.pool) => (RewardRecv(Ev) \/ Ev.a = "PAllocateOK" \/ (Txn(Ev, "Recv") /\ OkTx(Ev)))
    /\ (p'.supply # p.supply) => (Txn(Ev, "Recv") /\ OkTx(Ev))
  ]_vars

\* the pool always covers what is credited
C16_Solvent ==
  (IsProv(E) /\ E.a # "Init") =>
    \A d \in AllDenoms(p) :
      Get(p.pool, d) >= FoldSet(LAMBDA c, acc : acc + CreditInt(p, c, d) + CreditFrac(p, c, d), 0, Cons(p))

EligibleForRewards(s, c) == { v \in DOMAIN s.cons[c].cvs : s.h - s.cons[c].cvs[v].join >= s.epochsToReward * s.bpe }
Delta(f2, f1, v, d) == Get(IF v \in DOMAIN f2 THEN f2[v] ELSE << >>, d) - Get(IF v \in DOMAIN f1 THEN f1[v] ELSE << >>, d)

C16_Payout == [][
  (PStep /\ Ev.a = "PAllocateOK") =>
    LET c == Ev.args.c  d == Ev.args.d
        moved == Get(p.pool, d) - Get(p'.pool, d)
        el == EligibleForRewards(p, c)
        vs == DOMAIN p.vals
        paid == FoldSet(LAMBDA v, acc : acc + Delta(p'.outst, p.outst, v, d), 0, vs)
        toComm == Get(p'.community, d) - Get(p.community, d)
        n == Cardinality(vs) IN
    /\ moved >= 0
    /\ CreditInt(p', c, d) = CreditInt(p, c, d) - moved /\ CreditFrac(p', c, d) = CreditFrac(p, c, d)
    /\ (moved > 0) => (d \in SeqToSet(p.regDenoms) \/ d \in SeqToSet(p.cons[c].allowDenoms))
    \* only eligible members of this consumer's set are paid
    /\ \A v \in vs : (v \notin el) => Delta(p'.outst, p.outst, v, d) = 0
    /\ \A v \in vs : Delta(p'.outst, p.outst, v, d) >= 0
    \* never more than was moved; nothing vanishes beyond sub-unit dust per participant
    /\ paid + toComm <= moved + n + 1
    /\ paid + toComm >= moved - (n + 1)
    /\ toComm >= 0
    \* shares follow consumer voting power (within one unit)
    /\ \A v1, v2 \in el : (p.cons[c].cvs[v1].pow >= p.cons[c].cvs[v2].pow) =>
         Delta(p'.outst, p.outst, v1, d) >= Delta(p'.outst, p.outst, v2, d) - 1
    \* the per-consumer commission rate, when set, decides the validator's cut
    /\ \A v \in el : (v \in DOMAIN p.cons[c].commissionBp) =>
         LET got == Delta(p'.outst, p.outst, v, d)  cut == Delta(p'.commAcc, p.commAcc, v, d)
             want == (got * p.cons[c].commissionBp[v]) \div 10000 IN
         cut >= want - 1 /\ cut <= want + 1
    \* other consumers' credits untouched
    /\ \A c2 \in Cons(p) : (c2 # c) => p'.cons[c2].credit = p.cons[c2].credit
  ]_vars


\* an allocation step for (consumer, denom) touches no other denom: neither the pool nor anybody's credit (a failed
\* allocation of another denom earlier in the block must stay rolled back)
C19_AllocateFrame == [][
  (PStep /\ Ev.a \in {"PAllocateOK", "PAllocateFail"}) =>
    \A d2 \in (AllDenoms(p) \cup AllDenoms(p')) \ {Ev.args.d} :
      /\ Get(p'.pool, d2) = Get(p.pool, d2)
      /\ \A c2 \in Cons(p) \cap Cons(p') : CreditInt(p', c2, d2) = CreditInt(p, c2, d2) /\ CreditFrac(p', c2, d2) = CreditFrac(p, c2, d2)
  ]_vars

(* ======================================================================= *)
(* C07  equivocation evidence punishes exactly the signer, only when valid  *)
(* ======================================================================= *)

\* the abstract evidence record (DESIGN C07): cryptography is reduced to booleans the harness made true or false
EvValid(s, a) ==
  /\ a.c \in Cons(s) /\ s.cons[a.c].client # ""        \* a consumer with a recorded light client (launched or stopped)
  /\ ~a.old /\ a.hdrKey = a.key /\ a.chainOk
  /\ a.sameH /\ a.sameR /\ a.sameT /\ a.sameAddr /\ a.blockDiff /\ a.sigA /\ a.sigB
EvTarget(s, a) == IF a.c \in Cons(s) THEN Resolve(s, a.c, a.key) ELSE "nobody"
Punishable(s, v) == v \in DOMAIN s.vals /\ s.vals[v].st # "unbonded" /\ ~s.vals[v].tomb

C07_Verdict == [][
  (PStep /\ Txn(Ev, "DoubleVoting")) =>
    (OkTx(Ev) <=> (EvValid(p, Ev.args) /\ Punishable(p, EvTarget(p, Ev.args))))
  ]_vars

C07_OnlySigner == [][
  (PStep /\ Txn(Ev, "DoubleVoting") /\ OkTx(Ev)) =>
    LET a == Ev.args  tgt == EvTarget(p, a)  ds == p.cons[a.c].infr.v.ds
        x == p.vals[tgt]  y == p'.vals[tgt]
        burned == (x.tok - y.tok) + (x.ubd - y.ubd) IN
    /\ y.jailed /\ y.ju = ClampT(p'.t + ds.jail)
    /\ y.tomb = (ds.tomb \/ x.tomb)
    \* slashed with the consumer's double-sign fraction, counting stake still unbonding or redelegating
    /\ burned >= 0
    /\ (ds.fracBp = 0) => burned = 0
    \* (32-bit arithmetic: amounts are compared in units of 10^4 base tokens times basis points)
    /\ (ds.fracBp > 0 /\ x.lp > 0) => (burned >= x.lp * 100 * ds.fracBp - 2)
    /\ burned <= (x.lp * 100 + (x.ubd \div 10000) + 101) * ds.fracBp + 2
    \* nobody else is jailed, tombstoned or un-bonded; without redelegations nobody else loses tokens
    /\ \A v \in DOMAIN p.vals : (v # tgt) =>
         /\ JailView(p'.vals[v]) = JailView(p.vals[v])
         /\ (x.ubd = 0) => p'.vals[v].tok = p.vals[v].tok
    /\ p'.cons = p.cons
  ]_vars

C07_RejectedUnchanged == [][
  (PStep /\ Txn(Ev, "DoubleVoting") /\ ~OkTx(Ev)) => (p'.vals = p.vals /\ p'.dig.all = p.dig.all /\ p'.dig.staking = p.dig.staking)
  ]_vars


\* ---- light-client-attack misbehaviour: the validators that signed both conflicting headers ----
MisbFlagsOk(a) == a.clientOk /\ a.chainOk /\ a.sameH /\ ~a.old /\ a.sigOk
MisbTargets(s, a) == IF a.c \in Cons(s) THEN { Resolve(s, a.c, a.both[i]) : i \in DOMAIN a.both } ELSE {}

C07_MisbVerdict == [][
  (PStep /\ Txn(Ev, "Misbehaviour")) =>
    /\ OkTx(Ev) => ( /\ MisbFlagsOk(Ev.args) /\ Ev.args.c \in Cons(p) /\ p.cons[Ev.args.c].client # ""
                     /\ \E v \in MisbTargets(p, Ev.args) : Punishable(p, v) )
    /\ (~MisbFlagsOk(Ev.args)) => ~OkTx(Ev)
  ]_vars

\* completeness: a misbehaviour that is valid for the consumer and has at least one signer that can still be punished
\* is accepted (signers that were punished before do not protect the others)
C07_MisbComplete == [][
  (PStep /\ Txn(Ev, "Misbehaviour")) =>
    ((MisbFlagsOk(Ev.args) /\ Ev.args.c \in Cons(p) /\ p.cons[Ev.args.c].client # ""
        /\ \E v \in MisbTargets(p, Ev.args) : Punishable(p, v)) => OkTx(Ev))
  ]_vars

C07_MisbOnlySigners == [][
  (PStep /\ Txn(Ev, "Misbehaviour") /\ OkTx(Ev)) =>
    LET a == Ev.args  tg == MisbTargets(p, a)  ds == p.cons[a.c].infr.v.ds
        anyUbd == \E v \in tg : v \in DOMAIN p.vals /\ p.vals[v].ubd > 0 IN
    /\ \A v \in DOMAIN p.vals :
         IF v \in tg /\ Punishable(p, v)
           THEN LET x == p.vals[v]  y == p'.vals[v]  burned == (x.tok - y.tok) + (x.ubd - y.ubd) IN
                /\ y.jailed /\ y.tomb = (ds.tomb \/ x.tomb)
                /\ burned >= 0
                /\ (ds.fracBp = 0) => burned = 0
                /\ (ds.fracBp > 0 /\ x.lp > 0) => (burned >= x.lp * 100 * ds.fracBp - 2)
                /\ burned <= (x.lp * 100 + (x.ubd \div 10000) + 101) * ds.fracBp + 2
           ELSE /\ JailView(p'.vals[v]) = JailView(p.vals[v])
                /\ (~anyUbd) => p'.vals[v].tok = p.vals[v].tok
    /\ p'.cons = p.cons
  ]_vars

C07_MisbRejectedUnchanged == [][
  (PStep /\ Txn(Ev, "Misbehaviour") /\ ~OkTx(Ev)) => (p'.vals = p.vals /\ p'.dig.all = p.dig.all /\ p'.dig.staking = p.dig.staking)
  ]_vars

\* tombstoning is permanent and jailing by equivocation happens only through evidence
C07_TombstoneSticky == [][
  PStep => \A v \in DOMAIN p.vals \cap DOMAIN p'.vals : p.vals[v].tomb => p'.vals[v].tomb
  ]_vars


\* a downtime detected in consumer block h concerns height h-2 (the SDK's distribution height); the slash packet
\* queued for it carries the id in force at that height (0 if the chain has no record for it)
C12_SlashId == [][
  (CStep /\ Ev.a = "BeginDone" /\ Ev.chain \in DOMAIN cs /\ Ev.chain \notin g.forged) =>
    LET st == cs[Ev.chain]  st2 == cs'[Ev.chain] IN
    (Len(st2.pending) = Len(st.pending) + 1 /\ Last(st2.pending).type = "slash" /\ Last(st2.pending).inf = "downtime") =>
      Last(st2.pending).id = Get(st2.h2id, ToString(st2.h - 2))
  ]_vars

\* the provider resolves the id to the height at which that validator set was determined (channel-opening height for 0)
C12_Resolve == [][
  (PStep /\ SlashRecv(Ev) /\ Has(Ev.res, "infrH")) =>
    LET c == Ev.args.c  pkt == Ev.res.recv[1] IN
    Ev.res.infrH = (IF pkt.id = 0 THEN p.cons[c].initChainH.v ELSE p.v2h[ToString(pkt.id)])
  ]_vars

(* ======================================================================= *)
(* MBT  behaviours generated by TLC from MC_KeysGen, replayed on the code   *)
(* ======================================================================= *)
\* the model does not distinguish "initialized" from "registered"
MbtPhaseOk(real, model) == IF model = "registered" THEN real \in {"registered", "initialized"} ELSE real = model
MbtConsOk(r, x) ==
  /\ r.valKey = x.valKey /\ r.keyVal = x.keyVal /\ r.toPrune = x.toPrune /\ MbtPhaseOk(r.phase, x.phase)

\* every replayed message has the outcome the model predicts and leaves the consumer's key state the model predicts
MBT_KeysStep == [][
  (PStep /\ Has(Ev.args, "mbt")) =>
    /\ OkTx(Ev) <=> Ev.args.mbt.ok
    /\ Has(Ev.args.mbt, "c") => MbtConsOk(p'.cons[Ev.args.mbt.c], Ev.args.mbt.st)
  ]_vars

\* after every replayed block (begin-block launches / deletions, messages, end-block pruning) the key state of every
\* consumer and the validators' provider keys are the model's
MBT_KeysTick ==
  (E.a = "MbtTick") =>
    /\ \A c \in DOMAIN E.args.exp : c \in Cons(p) /\ MbtConsOk(p.cons[c], E.args.exp[c])
    /\ DOMAIN p.vals = DOMAIN E.args.prov
    /\ \A v \in DOMAIN E.args.prov : p.vals[v].pk = E.args.prov[v]

\* ---- lifecycle family (MC_LifecycleGen): records, id counter and the three time queues ----
MbtLifeFields == {"phase", "owner", "spawn", "spawnSet", "topN", "removalT", "infr", "infrQd"}
MbtLifeOk(s, x) ==
  /\ s.nextId = x.nextId
  /\ DOMAIN s.cons = DOMAIN x.cons
  /\ \A c \in DOMAIN x.cons : \A f \in MbtLifeFields : s.cons[c][f] = x.cons[c][f]
  /\ s.launchQ = x.launchQ /\ s.removeQ = x.removeQ /\ s.infrQ = x.infrQ

MBT_LifeStep == [][
  (PStep /\ Has(Ev.args, "mbt") /\ Has(Ev.args.mbt, "life")) => MbtLifeOk(p', Ev.args.mbt.life)
  ]_vars

\* after every replayed block: the state the model has after the block's messages, and the launch attempts of its
\* BeginBlock with their outcomes in the model's order
MBT_LifeTick ==
  (E.a = "MbtTick" /\ Has(E.args, "life")) => (MbtLifeOk(p, E.args.life) /\ g.launchLog = E.args.begin)

=============================================================================
